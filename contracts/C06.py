"""C06 — computed (ancillary) features reflect the current data and settings.

Three layers of contracts on the real code:

1. **Reads frame** (one unit per registered AncillaryFeature instance, found by
   reading the real registry): the instance's `method` is executed symbolically
   on a dataset whose configuration keys and optional features are present or
   absent symbolically, under the assumption that this instance is the one the
   dataset selects.  Every read of the configuration (value or presence) generates
   the obligation "this key is an ingredient of the instance's hash, or the answer
   is fixed by the instance being selected" -- otherwise a later change of that
   key leaves the cached value stale.
2. **Cache protocol**: RTDCBase._get_ancillary_feature_data returns the cached
   array only if its stored hash equals the hash of the current state, and
   stores what it computes under the hash of the current state;
   AncillaryFeature.hash feeds exactly req_features, req_config (as
   "sec:key=value") and a non-boolean req_func result to the hasher.
3. **Availability**: AncillaryFeature.is_available == requirements present, no
   available instance of the same name with higher priority, req_func.

(1)+(2) and A-HASH give: the value read == method(current state) == what a
freshly opened dataset computes.
"""
import z3

from pyvc import h5model, models, npmodel   # noqa: F401
from pyvc.contract import Contract
from pyvc.engine import LoopSpec, NS, PyRaise, Unsupported
from pyvc.sym import SArr, SObj, SOpaque, SBool, Elem, wrap, to_z3, is_sym

ANC = "dclab/rtdc_dataset/feat_anc_core/"
MEDIA = ["other", "cellcarrier", "no such medium"]


def registry():
    import dclab   # noqa: F401
    from dclab.rtdc_dataset.feat_anc_core.ancillary_feature import AncillaryFeature
    return list(AncillaryFeature.features)


def inst_tag(inst):
    cfg = sorted(k for sec, keys in inst.req_config for k in keys)
    return f"{inst.feature_name}[{inst.data or 'priority ' + str(inst.priority)}; needs {sorted(inst.req_features)} {cfg}]"


# --------------------------------------------------------------------------
# dataset model that records reads
# --------------------------------------------------------------------------
def _presence(ctx, kind, name):
    st = ctx.__dict__.setdefault("_presence", {})
    key = (kind, name)
    if key not in st:
        st[key] = ctx.bool(f"has_{kind}_{name}".replace(" ", "_"), inp=True)
    return st[key]


def _key(key):
    if isinstance(key, models.SFmt) and all(isinstance(p, str) for p in key.parts):
        return "".join(key.parts)
    if is_sym(key):
        raise Unsupported("symbolic configuration key")
    return key


def _note_read(interp, what, sec, key, mode):
    interp.cur_frame.unit.cfg_reads.add((sec, key))


def _cfg_getitem(interp, cfg, sec):
    ctx = interp.ctx
    if not ctx.decide(_presence(ctx, "sec", sec)):
        raise PyRaise(KeyError, (sec,))
    return ctx.obj("CfgSec", {"sec": sec}, name=f"config[{sec}]")


def _cfg_contains(interp, cfg, sec):
    return _presence(interp.ctx, "sec", sec)


def _flag(ctx, name):
    st = ctx.__dict__.setdefault("_flags", {})
    if name not in st:
        st[name] = ctx.bool(name, inp=True)
    return st[name]


def _realsym(ctx, name):
    st = ctx.__dict__.setdefault("_reals", {})
    if name not in st:
        st[name] = ctx.real(name, inp=True)
    return st[name]


def _value(interp, sec, key):
    ctx = interp.ctx
    st = ctx.__dict__.setdefault("_cfgval", {})
    if (sec, key) in st:
        return st[(sec, key)]
    if key == "emodulus medium":
        v = MEDIA[-1]
        for m in MEDIA[:-1]:
            if ctx.decide(_flag(ctx, f"medium_is_{m}")):
                v = m
                break
        # stored with its original capitalisation
        v = {"cellcarrier": "CellCarrier"}.get(v, v)
    elif key in ("emodulus lut", "emodulus viscosity model", "chip region"):
        v = SOpaque(ctx.const(f"cfg_{key}".replace(" ", "_"), Elem), str)
        if key == "chip region":
            v = "channel" if ctx.decide(_flag(ctx, "chip_region_is_channel")) else "reservoir"
    else:
        v = _realsym(ctx, f"cfg_{sec}_{key}".replace(" ", "_"))
        if key != "emodulus temperature":      # a temperature of 0 degC (or below) is a valid setting
            ctx.assume(v.e > 0)
    st[(sec, key)] = v
    return v


def _sec_contains(interp, s, key):
    sec = s.fields["sec"]
    key = _key(key)
    _note_read(interp, "in", sec, key, "presence")
    return _presence(interp.ctx, "cfg", f"{sec}:{key}")


def _sec_keys(interp, s):
    """keys() of a section: represented by one arbitrary present key (the loop body
    over the keys is then executed for an arbitrary key)"""
    sec = s.fields["sec"]
    return [SOpaque(z3.Const(f"cfgkey_any_{sec}", Elem), str)]


def _sec_getitem(interp, s, key):
    sec = s.fields["sec"]
    ctx = interp.ctx
    if isinstance(key, SOpaque) and str(key.e) == f"cfgkey_any_{sec}":
        interp.cur_frame.unit.cfg_reads.add((sec, "*"))
        return SOpaque(ctx.const(f"cfgval_any_{sec}", Elem))
    key = _key(key)
    _note_read(interp, "[]", sec, key, "value")
    if not ctx.decide(_presence(ctx, "cfg", f"{sec}:{key}")):
        raise PyRaise(KeyError, (key,))
    return _value(interp, sec, key)


def _sec_get(interp, s, key, default=None):
    sec = s.fields["sec"]
    ctx = interp.ctx
    key = _key(key)
    _note_read(interp, "get", sec, key, "value")
    if not ctx.decide(_presence(ctx, "cfg", f"{sec}:{key}")):
        return default
    return _value(interp, sec, key)


def _ds_contains(interp, ds, feat):
    if is_sym(feat):
        raise Unsupported("symbolic feature name")
    interp.cur_frame.unit.feature_reads.add((feat, "presence"))
    return _presence(interp.ctx, "feat", feat)


def _ds_getitem(interp, ds, feat):
    ctx = interp.ctx
    if is_sym(feat):
        raise Unsupported("symbolic feature name")
    interp.cur_frame.unit.feature_reads.add((feat, "value"))
    if not ctx.decide(_presence(ctx, "feat", feat)):
        raise PyRaise(KeyError, (feat,))
    st = ctx.__dict__.setdefault("_featval", {})
    if feat not in st:
        if feat in ("image", "mask", "contour", "image_bg", "trace"):
            st[feat] = SOpaque(ctx.const(f"feat_{feat}", Elem))
        else:
            st[feat] = SOpaque(ctx.const(f"feat_{feat}", Elem))
    return st[feat]


def _ds_len(interp, ds):
    return ds.fields["_N"]


for _k, _f in {("AncDS", "__contains__"): _ds_contains, ("AncDS", "__getitem__"): _ds_getitem,
               ("AncDS", "__len__"): _ds_len, ("Cfg", "__getitem__"): _cfg_getitem,
               ("Cfg", "__contains__"): _cfg_contains, ("CfgSec", "__contains__"): _sec_contains,
               ("CfgSec", "__getitem__"): _sec_getitem, ("CfgSec", "get"): _sec_get,
               ("CfgSec", "keys"): _sec_keys}.items():
    h5model.OBJ_METHODS[_k] = _f


# --------------------------------------------------------------------------
def avail_formula(ctx, inst, insts, depth=0):
    """AncillaryFeature.is_available as a formula over the presence symbols
    (specification side; the code side is the unit is_available below)"""
    conj = []
    for sec, keys in inst.req_config:
        conj.append(_presence(ctx, "sec", sec).e)
        for k in keys:
            conj.append(_presence(ctx, "cfg", f"{sec}:{k}").e)
    for f in inst.req_features:
        conj.append(_presence(ctx, "feat", f).e)
    for other in insts:
        if other is inst or other.feature_name != inst.feature_name or other.priority <= inst.priority:
            continue
        conj.append(z3.Not(avail_formula(ctx, other, insts, depth + 1)))
    rf = getattr(inst.req_func, "__name__", "")
    if rf == "is_channel":
        has = z3.And(_presence(ctx, "sec", "setup").e, _presence(ctx, "cfg", "setup:chip region").e)
        conj.append(z3.Or(z3.Not(has), z3.Bool("chip_region_is_channel")))
    return z3.And(*conj) if conj else z3.BoolVal(True)


class _Hashed:
    """membership test for 'this configuration key is an ingredient of the hash'"""

    def __init__(self, keys, secs):
        self.keys, self.secs = set(keys), set(secs)

    def __contains__(self, sk):
        return sk in self.keys or sk[0] in self.secs


def _short(o):
    if o[0] == "raise":
        return "raises " + o[1]
    import hashlib
    return "returns value #" + hashlib.md5(repr(o).encode()).hexdigest()[:6]


class ReqFunc(Contract):
    """req_func of an instance as seen by hash(): the default `lambda x: True` and
    is_channel return a bool (not hashed); has_ml_scores returns the list of score
    features with their hashes (hashed)"""
    trusted = True
    name = "req_func"

    def __init__(self, fn):
        self.fn = fn
        super().__init__()

    def __call__(self, interp, *args):
        nm = getattr(self.fn, "__name__", "")
        if nm == "has_ml_scores":
            r = SOpaque(interp.ctx.const("ml_score_hashes", Elem))
            return r
        return True


ML_CANDIDATES = ("deform", "ml_score_abc", "ml_score_xyz")


class NoScoreInstances(Contract):
    """AncillaryFeature.get_instances(feature) for an ml_score_??? feature: no registered
    ancillary feature computes a score (checked against the registry on every run)"""
    trusted = True
    name = "AncillaryFeature.get_instances"

    def __call__(self, interp, *args):
        return []


class HashIngredients(Contract):
    """AncillaryFeature.hash(self, rtdc_ds): which configuration values and features
    reach the hasher (the ingredient set of the cache key), derived from the code"""
    path = ANC + "ancillary_feature.py"
    module = "dclab.rtdc_dataset.feat_anc_core.ancillary_feature"
    qualname = "AncillaryFeature.hash"
    classes = {"AF": (ANC + "ancillary_feature.py", "AncillaryFeature")}
    class_modules = {"AF": "dclab.rtdc_dataset.feat_anc_core.ancillary_feature"}
    params = ("self", "rtdc_ds")
    opaque_modules = ("dclab.util", "dclab.features")
    opaque_arith = True

    def __init__(self, inst):
        self.inst = inst
        self.name = "ingredients of the hash of " + inst_tag(inst)
        self.cfg_reads, self.feature_reads, self.paths = set(), set(), []
        super().__init__()
        rf = getattr(inst.req_func, "__name__", "")
        self.ml = rf == "has_ml_scores"
        # a requirement function that returns something other than a bool contributes to the
        # hash: the real function is taken (the default lambda and is_channel return a bool)
        self.real_rf = rf not in ("<lambda>", "is_channel")
        if self.real_rf:
            self.inline = {rf, "get_ml_score_names"}
            self.callees = {"AncillaryFeature.get_instances": NoScoreInstances()}
        else:
            self.callees = {"AF.req_func": ReqFunc(inst.req_func)}

    def inputs(self, ctx):
        N = ctx.int("N", lo=1)
        ds = ctx.obj("AncDS", {"_N": N, "config": ctx.obj("Cfg", {}),
                               "_feature_candidates": list(ML_CANDIDATES) if self.ml else []}, name="ds")
        # hash() is only called for an available instance: the requirements are present
        for sec, keys in self.inst.req_config:
            ctx.assume(_presence(ctx, "sec", sec).e)
            for k in keys:
                ctx.assume(_presence(ctx, "cfg", f"{sec}:{k}").e)
        for f in self.inst.req_features:
            ctx.assume(_presence(ctx, "feat", f).e)
        fields = {"req_features": list(self.inst.req_features),
                  "req_config": [[sec, list(keys)] for sec, keys in self.inst.req_config],
                  "feature_name": self.inst.feature_name}
        if self.real_rf:
            fields["req_func"] = self.inst.req_func
        af = ctx.obj("AF", fields, name="af")
        return {"self": af, "rtdc_ds": ds}

    def post(self, ctx, st):
        from pyvc.engine import sig_of
        self.paths.append((repr(sig_of(st.result)), [str(c) for c in ctx.pc]))
        return []

    def raises(self, ctx, st, exc):
        self.paths.append(("raise " + exc.name, [str(c) for c in ctx.pc]))
        return None


OPTIONAL_FEATS = ("bg_off", "temp", "fl1_max", "fl2_max", "fl3_max")


def derive_hashed(inst):
    """(hashed config keys, fully hashed sections, features whose presence and values are
    hashed, features whose presence alone is hashed, problem)"""
    from pyvc import engine
    u = HashIngredients(inst)
    try:
        engine.Engine().verify(u)
    except Exception as ex:       # outside the subset: nothing is known to be hashed
        return set(), set(), set(), set(), f"{type(ex).__name__}: {ex}"
    if not u.paths or any(p[0].startswith("raise") for p in u.paths):
        return set(), set(), set(), set(), f"hash() raises: {[p[0] for p in u.paths[:2]]}"
    keys, secs = None, None
    import re
    for sig, _pc in u.paths:
        # hash() feeds "sec:key=value" per key: the key is an ingredient if that text,
        # with the value read from the configuration, reaches the hasher
        k = {(sec, key) for sec, kk in inst.req_config for key in kk if f"{sec}:{key}=" in sig}
        s_ = {sec for sec, kk in inst.req_config if f"cfgval_any_{sec}" in sig and f"cfgkey_any_{sec}" in sig}
        keys = k if keys is None else keys & k
        secs = s_ if secs is None else secs & s_
    feats, pres = set(), set()
    for f in dict.fromkeys(tuple(inst.req_features) + ML_CANDIDATES + OPTIONAL_FEATS):
        absent = [sig for sig, pc in u.paths if any(c.replace(" ", "") == f"Not(has_feat_{f})" for c in pc)]
        present = [sig for sig, pc in u.paths if not any(c.replace(" ", "") == f"Not(has_feat_{f})" for c in pc)]
        explicit = [sig for sig, pc in u.paths if any(c.replace(" ", "") == f"has_feat_{f}" for c in pc)]
        # presence is an ingredient: a state with the feature never hashes like a state without it
        # (a required feature is always there; otherwise hash() must have looked at its presence)
        presence = (f in inst.req_features) or (bool(absent) and bool(explicit) and not (set(absent) & set(explicit)))
        value = bool(present) and all(re.search(rf"feat_{f}(?![A-Za-z0-9_])", sig) for sig in
                                      (present if f in inst.req_features else explicit)) \
            and (f in inst.req_features or bool(explicit))
        if presence:
            pres.add(f)
            if value:
                feats.add(f)
    return keys, secs, feats, pres, None


DEFAULT_KEYS = [("calculation", k) for k in ("emodulus lut", "emodulus medium", "emodulus temperature",
                                             "emodulus viscosity", "emodulus viscosity model")] \
    + [("calculation", f"crosstalk fl{i}{j}") for i in "123" for j in "123" if i != j] \
    + [("imaging", "pixel size"), ("imaging", "frame rate"), ("setup", "flow rate"), ("setup", "channel width"),
       ("setup", "chip region")]


class AncReads(Contract):
    """reads frame of one registered instance"""
    opaque_modules = ("dclab.features",)
    opaque_arith = True

    def __init__(self, inst, insts, carve):
        self.inst, self.insts = inst, insts
        fn = inst.method
        self.path = fn.__module__.replace(".", "/") + ".py"
        self.module = fn.__module__
        self.qualname = fn.__name__
        self.name = "reads of " + inst_tag(inst)
        self.params = ("mm",)
        keys, secs, feats, pres, problem = derive_hashed(inst)
        self.hashed_keys, self.hashed_secs, self.hashed_feats, self.hash_problem = keys, secs, feats, problem
        self.presence_hashed = pres
        self.hashed_cfg = _Hashed(keys, secs)
        self.carve_reads = set(carve)
        self.feature_reads = set()
        self.cfg_reads = set()
        self.paths = []
        super().__init__()
        self.inline = {"compute_ctc", "compute_emodulus_known_media", "compute_emodulus_visc_only",
                       "get_ml_score_names"}

    @staticmethod
    def opaque_guard(interp, fn, args, kwargs):
        for a in list(args) + list(kwargs.values()):
            if isinstance(a, SObj) and a.clsname in ("AncDS", "Cfg", "CfgSec"):
                raise Unsupported(f"the dataset itself is passed to {fn.__module__}.{fn.__name__}")

    def inputs(self, ctx):
        N = ctx.int("N", lo=1, inp=True)
        ml = self.inst.feature_name == "ml_class"
        ds = ctx.obj("AncDS", {"_N": N, "config": ctx.obj("Cfg", {}),
                               "_feature_candidates": list(ML_CANDIDATES) if ml else []}, name="ds")
        # this instance is the one the dataset selects
        ctx.assume(avail_formula(ctx, self.inst, self.insts))
        ctx.assume(z3.Bool("chip_region_is_channel") == _flag(ctx, "chip_region_is_channel").e)
        # symbols of the state (registered as inputs so that counterexamples can be replayed)
        for m in MEDIA[:-1]:
            _flag(ctx, f"medium_is_{m}")
        for (sec, key) in DEFAULT_KEYS:
            _presence(ctx, "cfg", f"{sec}:{key}")
            if key in ("emodulus temperature", "emodulus viscosity"):
                _realsym(ctx, f"cfg_{sec}_{key}".replace(" ", "_"))
        for f in ("temp", "fl1_max", "fl2_max", "fl3_max"):
            _presence(ctx, "feat", f)
        return {"mm": ds}

    # -- per path: remember (path condition, outcome) ---------------------------------
    def post(self, ctx, st):
        from pyvc.engine import sig_of
        sig = sig_of(st.result)
        self.paths.append((list(ctx.pc), ("return", sig), tuple(ctx.decisions)))
        posts = []
        if self.inst.feature_name == "emodulus":
            posts += self.precedence(ctx, sig)
        return posts

    def precedence(self, ctx, sig):
        """documented precedence of the Young's modulus scenarios: 'emodulus viscosity'
        with medium 'other' (B) uses the viscosity and no temperature; otherwise a
        configured 'emodulus temperature' (C) is used even if a `temp` feature exists
        (also a temperature of 0); otherwise the `temp` feature (A)"""
        has_t = _presence(ctx, "cfg", "calculation:emodulus temperature").e
        has_v = _presence(ctx, "cfg", "calculation:emodulus viscosity").e
        has_m = _presence(ctx, "cfg", "calculation:emodulus medium").e
        other = z3.Or(z3.Not(has_m), z3.Bool("medium_is_other"))
        kw = dict(sig[2]) if isinstance(sig, tuple) and len(sig) == 3 and str(sig[0]).endswith("get_emodulus") else None
        if kw is None:
            return [("the Young's modulus is the result of features.emodulus.get_emodulus", z3.BoolVal(False))]
        t, m = kw.get("temperature"), kw.get("medium")
        t_cfg = t == ("sym", "cfg_calculation_emodulus_temperature")
        t_feat = t == ("sym", "feat_temp")
        t_none = t == ("const", "None")
        m_visc = m == ("sym", "cfg_calculation_emodulus_viscosity")
        return [("scenario B (viscosity given, medium 'other'): the viscosity is used, no temperature",
                 z3.Implies(z3.And(has_v, other), z3.BoolVal(m_visc and t_none))),
                ("scenario C (temperature configured): the configured temperature is used, whatever its value and "
                 "whether or not a `temp` feature exists",
                 z3.Implies(z3.And(has_t, z3.Not(z3.And(has_v, other))), z3.BoolVal(t_cfg and not m_visc))),
                ("scenario A (no configured temperature): the `temp` feature is used",
                 z3.Implies(z3.And(z3.Not(has_t), z3.Not(z3.And(has_v, other))), z3.BoolVal(t_feat and not m_visc)))]

    def raises(self, ctx, st, exc):
        self.paths.append((list(ctx.pc), ("raise", exc.name), tuple(ctx.decisions)))
        # availability promises that reading succeeds (layer 3)
        if exc.name in self.allowed_raises:
            return z3.BoolVal(True)
        return None

    allowed_raises = ()

    # -- relational obligations ---------------------------------------------------------
    def key_symbols(self, sec, key):
        names = [f"has_cfg_{sec}:{key}".replace(" ", "_"), f"cfg_{sec}_{key}".replace(" ", "_"),
                 f"cfg_{key}".replace(" ", "_")]
        if key == "emodulus medium":
            names += [f"medium_is_{m}" for m in MEDIA]
        if key == "chip region":
            names += ["chip_region_is_channel"]
        return names

    def ingredient_obligations(self):
        from pyvc.engine import Obligation
        out = []
        missing = sorted(set(self.inst.req_features) - set(self.hashed_feats))
        out.append(Obligation(self.name, "every required feature is an ingredient of the hash"
                              + (f" [missing: {missing}; {self.hash_problem or ''}]" if missing else ""),
                              self.line_of(), [], z3.BoolVal(not missing), (), kind="frame"))
        return out

    def finalize(self):
        """non-interference: two states that agree on every ingredient of the hash (and
        on the keys of a recorded carve-out) and both select this instance lead to
        the same outcome.  One obligation per pair of paths with different outcomes,
        and per path whose outcome mentions the value of an unhashed key."""
        from pyvc.engine import Obligation
        unhashed = sorted(k for k in self.cfg_reads if k not in self.hashed_cfg and k not in self.carve_reads)
        out = self.ingredient_obligations()
        # features the method looks at (presence or values) that are no ingredient of the hash
        unhashed_f = sorted(f for f in {f for f, _ in self.feature_reads}
                            if f not in self.hashed_feats and ("feature", f) not in self.carve_reads)
        if not unhashed and not unhashed_f:
            return out
        import re

        def sanitize(n):
            return "".join(c if (c.isalnum() or c in "_.!@$%^&*-+=<>?/~") else "_p" for c in n)
        rename_names = {sanitize(n) for k in unhashed for n in self.key_symbols(*k)} \
            | {sanitize(n) for f in unhashed_f
               for n in ((f"feat_{f}",) if f in self.presence_hashed else (f"has_feat_{f}", f"feat_{f}"))}

        def primed(f):
            subs = []
            seen = set()

            def walk(e):
                if e.get_id() in seen:
                    return
                seen.add(e.get_id())
                if z3.is_const(e) and e.decl().kind() == z3.Z3_OP_UNINTERPRETED and e.decl().name() in rename_names:
                    subs.append((e, z3.Const(e.decl().name() + "@later", e.sort())))
                for c in e.children():
                    walk(c)
            walk(f)
            return z3.substitute(f, *subs) if subs else f

        def mentions(sig):
            t = repr(sig)
            return [n for n in rename_names if re.search(r"(?<![A-Za-z0-9_])" + re.escape(n) + r"(?![A-Za-z0-9_@])", t)]
        what = ", ".join([f"[{s_}] '{k}'" for s_, k in unhashed] + [f"feature '{f}'" for f in unhashed_f])
        unhashed = list(unhashed) + [("feature", f) for f in unhashed_f]
        # group the paths by outcome
        classes = {}
        for pc, o, d in self.paths:
            classes.setdefault(o, []).append(pc)
        keys = list(classes)

        def disj(pcs):
            return z3.Or(*[z3.And(*pc) if pc else z3.BoolVal(True) for pc in pcs])
        for o in keys:
            others = [pc for o2 in keys if o2 != o for pc in classes[o2]]
            if others:
                pc = [disj(classes[o]), primed(disj(others))]
                out.append(Obligation(self.name, f"two states that differ only in keys / features outside the hash ({what}) "
                                      f"lead to the same outcome", self.line_of(), pc,
                                      z3.BoolVal(False), (), kind="frame",
                                      info={"outcome": repr(o)[:300], "unhashed": unhashed}))
            m = mentions(o)
            if m:
                out.append(Obligation(self.name, f"the result does not depend on the value of a key / feature outside the hash "
                                      f"({what})", self.line_of(),
                                      [disj(classes[o])], z3.BoolVal(False), (), kind="frame",
                                      info={"outcome": repr(o)[:300], "unhashed": unhashed}))
        return out

    def line_of(self):
        from pyvc import source
        return source.find(self.path, self.qualname).lines[0]


def _carve(pid="C06"):
    import json, pathlib as _p
    f = _p.Path(__file__).resolve().parent.parent / "known_findings.json"
    out = {}
    if f.exists():
        for k in json.loads(f.read_text()):
            if k["property"] == pid and k["kind"] == "finding":
                out[k["id"]] = k
    return out


def build_units():
    insts = registry()
    finds = _carve()
    units = []
    for inst in insts:
        carve, raises = set(), set()
        for k in finds.values():
            for ent in k.get("carve_out_reads", []):
                if ent["feature"] == inst.feature_name and (ent.get("data") in (None, inst.data)) \
                        and ent.get("priority") in (None, inst.priority):
                    carve |= {tuple(x) for x in ent["keys"]}
            for ent in k.get("carve_out_raises", []):
                if ent["feature"] == inst.feature_name:
                    raises |= set(ent["exceptions"])
        if inst.feature_name == "ml_class":
            # the documented sanity check: scores outside [0, 1] raise (a fresh dataset raises as well)
            raises |= {"ValueError"}
        u = AncReads(inst, insts, carve)
        u.allowed_raises = tuple(raises)
        units.append(u)
    return units


UNITS = build_units()
TRUSTED = []
TRUSTED_BASE = ["A-HASH (md5 of different ingredient streams differs)",
                "functions of dclab.features.* called by the methods are pure functions of their arguments "
                "(they are never handed the dataset: checked at every call)",
                "innate features of a dataset do not change during its life (temporary features cannot shadow them)"]
ASSUMPTIONS = ["ml_score_??? values lie within [0, 1]: otherwise reading ml_class raises the documented ValueError",
               "third-party plugin features and user-defined temporary features carry no contract",
               "the value domain of 'emodulus medium' is represented by three cases: 'other', a known medium, an unknown medium"]
PARALLEL_UNITS = True


# --------------------------------------------------------------------------
# replay on the real code
# --------------------------------------------------------------------------
DEFAULTS = {
    ("calculation", "emodulus lut"): ("LE-2D-FEM-19", "HE-2D-FEM-22"),
    ("calculation", "emodulus medium"): ("CellCarrier", "other"),
    ("calculation", "emodulus temperature"): (23.0, 30.0),
    ("calculation", "emodulus viscosity"): (1.0, 2.0),
    ("calculation", "emodulus viscosity model"): ("buyukurganci-2022", "herold-2017"),
    ("imaging", "pixel size"): (0.34, 0.5), ("imaging", "frame rate"): (2000.0, 3000.0),
    ("setup", "flow rate"): (0.04, 0.08), ("setup", "channel width"): (20.0, 30.0),
    ("setup", "chip region"): ("channel", "reservoir"),
}
for _i in "123":
    for _j in "123":
        if _i != _j:
            DEFAULTS[("calculation", f"crosstalk fl{_i}{_j}")] = (0.1, 0.35)


def _native_ds(state, need=(), without=(), extra=None):
    """dict-based dataset with the features / configuration keys of `state`"""
    state = {k.replace(" ", "_"): v for k, v in state.items()}
    for f in need:
        state.setdefault(f"has_feat_{f}", True)
    for f in without:
        state[f"has_feat_{f}"] = False
    import numpy as np
    import dclab
    n = 6
    rng = np.random.default_rng(3)
    feats = {"area_um": np.linspace(60, 150, n), "deform": np.linspace(0.02, 0.08, n), "temp": np.full(n, 23.5),
             "fl1_max": rng.uniform(10, 100, n), "fl2_max": rng.uniform(10, 100, n), "fl3_max": rng.uniform(10, 100, n),
             "frame": np.arange(1, n + 1, dtype=float), "area_cvx": np.linspace(50, 90, n), "area_msd": np.linspace(48, 88, n),
             "size_x": np.linspace(5, 9, n), "size_y": np.linspace(4, 8, n), "circ": np.linspace(0.8, 0.99, n),
             "pos_x": np.linspace(10, 20, n), "pos_y": np.linspace(5, 6, n),
             "bg_off": np.linspace(1, 3, n), "ml_score_abc": np.linspace(0.1, 0.9, n), "ml_score_xyz": np.linspace(0.8, 0.3, n),
             "image": rng.integers(80, 120, (n, 20, 30)).astype(np.uint8), "image_bg": np.full((n, 20, 30), 100, np.uint8)}
    mask = np.zeros((n, 20, 30), bool)
    mask[:, 5:15, 8:20] = True
    feats["mask"] = mask
    present = {f: v for f, v in feats.items() if state.get(f"has_feat_{f}", f in ("area_um", "deform"))}
    present.update(extra or {})
    if not present:
        present = {"deform": feats["deform"]}
    ds = dclab.new_dataset(present)
    for (sec, key), (v1, v2) in DEFAULTS.items():
        if state.get(f"has_cfg_{sec}:{key}".replace(" ", "_"), False):
            val = v1
            if key == "emodulus medium":
                val = "other" if state.get("medium_is_other") else \
                    ("CellCarrier" if state.get("medium_is_cellcarrier") else "no such medium")
            if key == "chip region":
                val = "channel" if state.get("chip_region_is_channel", True) else "reservoir"
            if key == "emodulus temperature" and "cfg_calculation_emodulus_temperature" in state:
                val = float(state["cfg_calculation_emodulus_temperature"])
            if key == "emodulus viscosity" and float(state.get("cfg_calculation_emodulus_viscosity", 0) or 0) > 0:
                val = float(state["cfg_calculation_emodulus_viscosity"])
            ds.config[sec][key] = val
    return ds


def _outcome(ds, feat):
    import numpy as np
    try:
        v = np.array(ds[feat], dtype=float, copy=True)
        return ("ok", v)
    except BaseException as ex:
        return ("raise", type(ex).__name__)


def _same(o1, o2):
    import numpy as np
    if o1[0] != o2[0]:
        return False
    if o1[0] == "raise":
        return o1[1] == o2[1]
    return o1[1].shape == o2[1].shape and np.allclose(o1[1], o2[1], equal_nan=True)


def _precedence_native(ds, got):
    """the documented scenario, computed directly with get_emodulus"""
    import numpy as np
    from dclab.features.emodulus import get_emodulus
    c = ds.config["calculation"]
    kw = dict(area_um=ds["area_um"], deform=ds["deform"], channel_width=ds.config["setup"]["channel width"],
              flow_rate=ds.config["setup"]["flow rate"], px_um=ds.config["imaging"]["pixel size"],
              lut_data=c["emodulus lut"])
    medium = c.get("emodulus medium", "other")
    if "emodulus viscosity" in c and medium.lower() == "other":
        want, which = get_emodulus(medium=c["emodulus viscosity"], temperature=None, visc_model=None, **kw), "B"
    elif "emodulus temperature" in c:
        want, which = get_emodulus(medium=medium, temperature=c["emodulus temperature"],
                                   visc_model=c.get("emodulus viscosity model", "herold-2017"), **kw), "C"
    elif "temp" in ds:
        want, which = get_emodulus(medium=medium, temperature=ds["temp"],
                                   visc_model=c.get("emodulus viscosity model", "herold-2017"), **kw), "A"
    else:
        return None
    if not np.allclose(np.asarray(got, dtype=float), np.asarray(want, dtype=float), equal_nan=True):
        return (f"documented scenario {which} gives {np.asarray(want)[:3]}, the dataset returns {np.asarray(got)[:3]} "
                f"(temperature setting {c.get('emodulus temperature')}, temp feature {'present' if 'temp' in ds else 'absent'})")
    return None


def _replay_temp_child():
    """a temporary feature replaced through a hierarchy child must show in the child and in
    a plugin feature computed from it"""
    import warnings
    import numpy as np
    import dclab
    from dclab.rtdc_dataset.feat_anc_plugin.plugin_feature import PlugInFeature, remove_plugin_feature

    def make():
        rng = np.random.RandomState(3)
        ds = dclab.new_dataset({"area_um": rng.uniform(20, 200, 40), "deform": rng.uniform(0.01, 0.2, 40)})
        ds.config["filtering"]["area_um min"] = 50
        ds.config["filtering"]["area_um max"] = 150
        ds.apply_filter()
        return ds, dclab.new_dataset(ds)
    with warnings.catch_warnings():
        warnings.simplefilter("ignore")
        dclab.register_temporary_feature("c06_tmp")
        pf = PlugInFeature("c06_tmp_sq", {"method": lambda mm: np.array(mm["c06_tmp"], dtype=float) ** 2,
                                          "feature names": ["c06_tmp_sq"], "features required": ["c06_tmp"],
                                          "version": "0.1.0"})
        try:
            ds, child = make()
            n = len(child)
            first, second = np.linspace(1, 2, n), np.linspace(5, 9, n)
            dclab.set_temporary_feature(child, "c06_tmp", first)
            if not np.allclose(child["c06_tmp_sq"][:], first ** 2):
                return {"failed": True, "detail": "plugin feature of a temporary feature set through a child is wrong"}
            dclab.set_temporary_feature(child, "c06_tmp", second)
            if not np.allclose(child["c06_tmp"][:], second):
                return {"failed": True, "detail": "a temporary feature replaced through a hierarchy child keeps its old values"}
            got = np.array(child["c06_tmp_sq"][:])
            if not np.allclose(got, second ** 2):
                return {"failed": True, "detail": f"after replacing a temporary feature through a hierarchy child the plugin "
                                                  f"feature computed from it is stale: {got[:3]} instead of {(second ** 2)[:3]}"}
            root = np.array(ds["c06_tmp"][:])
            if np.count_nonzero(~np.isnan(root)) != n:
                return {"failed": True, "detail": "the root parent does not hold NaN at the events outside the child"}
        finally:
            remove_plugin_feature(pf)
            dclab.rtdc_dataset.feat_temp.deregister_all()
    return {"failed": False, "detail": "temporary feature and derived plugin feature follow the replacement"}


def replay(unit_name, inp, obligation=""):
    import warnings
    if unit_name.startswith("set_temporary_feature"):
        return _replay_temp_child()
    if unit_name.startswith("RTDCBase.__contains__"):
        return _replay_contains()
    feat = unit_name.replace("reads of ", "").split("[")[0]
    state = {k: v for k, v in inp.items() if "@later" not in k}
    import ast
    import re
    m = re.search(r"needs (\[[^\]]*\])", unit_name)
    need = ast.literal_eval(m.group(1)) if m else []
    if feat == "ml_class":
        need = ["ml_score_abc", "ml_score_xyz"]
    for f in need:
        state.setdefault(f"has_feat_{f}", True)
    with warnings.catch_warnings():
        warnings.simplefilter("ignore")
        try:
            ds = _native_ds(state)
        except Exception as ex:
            return {"failed": None, "detail": f"state cannot be built: {ex}"}
        if feat not in ds:
            return {"failed": None, "detail": f"'{feat}' is not available in the replayed state"}
        first = _outcome(ds, feat)
        if first[0] == "raise" and "outside the hash" in obligation:
            # the obligation is about edits of the state: show such an edit if there is one
            msg = _replay_feature_edits(feat, {k: v for k, v in state.items() if not k.startswith("has_feat_fl")}, need)
            if msg:
                return {"failed": True, "detail": msg}
        if first[0] == "raise":
            return {"failed": True, "detail": f"'{feat}' in ds is True but reading it raises {first[1]}"}
        if feat == "emodulus":
            msg = _precedence_native(ds, first[1])
            if msg:
                return {"failed": True, "detail": msg}
        # change / set / remove the configuration keys in turn and compare with a fresh dataset
        relevant = {"emodulus": ("emodulus", "pixel", "flow", "channel", "chip"), "fl": ("crosstalk",),
                    "time": ("frame rate",), "area_um": ("pixel",), "volume": ("pixel",)}
        pats = next((v for k, v in relevant.items() if feat.startswith(k)), ("",))
        for (sec, key), (v1, v2) in DEFAULTS.items():
            if not any(p_ in key for p_ in pats):
                continue
            for action in ("set", "remove"):
                ds = _native_ds(state)
                if feat not in ds or _outcome(ds, feat)[0] == "raise":
                    continue
                st2 = dict(state)
                if action == "set":
                    cur = ds.config[sec].get(key)
                    new = v2 if cur == v1 or cur is None else v1
                    if key == "emodulus medium":
                        new = "other" if cur != "other" else "CellCarrier"
                    ds.config[sec][key] = new
                else:
                    if key not in ds.config[sec]:
                        continue
                    ds.config[sec].pop(key)
                if feat not in ds:
                    continue
                later = _outcome(ds, feat)
                import dclab
                fresh = dclab.new_dataset({f: ds[f] for f in ds.features_innate})
                for s_ in ("calculation", "imaging", "setup"):
                    for k_ in list(ds.config[s_].keys()):
                        fresh.config[s_][k_] = ds.config[s_][k_]
                if feat not in fresh:
                    continue
                want = _outcome(fresh, feat)
                if not _same(later, want):
                    return {"failed": True,
                            "detail": f"after '{action}' of [{sec}] '{key}' the dataset returns "
                                      f"{later[0] if later[0] == 'raise' else 'a stale value'} for '{feat}' "
                                      f"({later[1] if later[0] == 'raise' else later[1][:3]}); a fresh dataset gives "
                                      f"{want[1] if want[0] == 'raise' else want[1][:3]}"}
        # add / replace the features the method may look at as temporary features, compare with a fresh dataset
        msg = _replay_feature_edits(feat, state, need)
        if msg:
            return {"failed": True, "detail": msg}
    return {"failed": False, "detail": "no stale value and no failing read found"}


def _replay_contains():
    """read a computed feature, remove one of the settings it needs: `feat in ds` must agree with reading"""
    import warnings
    full = {f"has_cfg_{s_}:{k}": True for (s_, k) in DEFAULTS}
    full.update({"medium_is_cellcarrier": True, "has_feat_fl1_max": True, "has_feat_fl2_max": True, "has_feat_fl3_max": True,
                 "has_feat_frame": True, "has_feat_pos_x": True, "has_feat_pos_y": True, "has_feat_image": True,
                 "has_feat_mask": True, "has_feat_area_cvx": True})
    full.pop("has_cfg_calculation:emodulus viscosity")
    with warnings.catch_warnings():
        warnings.simplefilter("ignore")
        for feat in ("emodulus", "time", "fl1_max_ctc", "area_um_raw", "volume"):
            for (sec, key) in DEFAULTS:
                # two fluorescence channels: with three and an incomplete matrix reading raises (finding D16)
                ds = _native_ds(dict(full, has_feat_fl3_max=False) if feat.startswith("fl") else full)
                if feat not in ds or key not in ds.config[sec]:
                    continue
                if _outcome(ds, feat)[0] == "raise":
                    continue
                ds.config[sec].pop(key)
                says = feat in ds
                listed = feat in ds.features
                got = _outcome(ds, feat)
                if says != (got[0] == "ok") or listed != says:
                    return {"failed": True, "detail": f"'{feat}' was read, then [{sec}] '{key}' was removed: "
                                                      f"'{feat}' in ds is {says}, in ds.features: {listed}, reading it "
                                                      f"{'succeeds' if got[0] == 'ok' else 'raises ' + str(got[1])}"}
    return {"failed": False, "detail": "containment agrees with reading after every removal of a setting"}


OPTIONAL_FOR = {"bright_bc": ("bg_off",), "bright_perc": ("bg_off",), "fl": ("fl1_max", "fl2_max", "fl3_max"),
                "emodulus": ("temp",), "ml_class": ("ml_score_abc", "ml_score_xyz")}


def _replay_feature_edits(feat, state, need):
    import numpy as np
    import dclab
    from dclab.rtdc_dataset import feat_temp
    opts = next((v for k, v in OPTIONAL_FOR.items() if feat.startswith(k)), ())

    def cfg_copy(src, dst):
        for s_ in ("calculation", "imaging", "setup"):
            for k_ in list(src.config[s_].keys()):
                dst.config[s_][k_] = src.config[s_][k_]
    for f in opts:
        for action in ("add", "replace"):
            ds = _native_ds(state, need=[x for x in need if x != f], without=[f])
            n = len(ds)
            d1, d2 = np.linspace(0.2, 0.7, n), np.linspace(0.9, 0.05, n)
            if f.startswith("fl") or f == "temp":
                d1, d2 = d1 * 40 + 5, d2 * 40 + 5
            if action == "replace":
                feat_temp.set_temporary_feature(ds, f, d1)
            if feat not in ds:
                continue
            if _outcome(ds, feat)[0] == "raise" and action == "add":
                pass
            feat_temp.set_temporary_feature(ds, f, d2)
            if feat not in ds:
                continue
            later = _outcome(ds, feat)
            fresh = _native_ds(state, need=[x for x in need if x != f], without=[f], extra={f: d2})
            cfg_copy(ds, fresh)
            if feat not in fresh:
                continue
            want = _outcome(fresh, feat)
            if not _same(later, want):
                verb = "was set" if action == "add" else "was replaced"
                return (f"'{feat}' was read, then the temporary feature '{f}' {verb}: the dataset returns "
                        f"{later[1] if later[0] == 'raise' else 'the stale value ' + str(later[1][:3])}; a fresh dataset "
                        f"with the same data gives {want[1] if want[0] == 'raise' else want[1][:3]}")
    return None


def in_carve_out(unit_name, inp):
    return None


def bounded_inputs(unit_name, rng):
    keys = [f"has_cfg_{s}:{k}" for (s, k) in DEFAULTS]
    for _ in range(60):
        st = {k: rng.random() < 0.6 for k in keys}
        st.update({"medium_is_other": rng.random() < 0.4, "medium_is_cellcarrier": rng.random() < 0.6,
                   "chip_region_is_channel": True, "has_feat_area_um": True, "has_feat_deform": True,
                   "has_feat_temp": rng.random() < 0.5, "has_feat_fl1_max": True, "has_feat_fl2_max": True,
                   "has_feat_fl3_max": rng.random() < 0.5})
        yield st


# --------------------------------------------------------------------------
# layer 3: AncillaryFeature.is_available against the availability formula
# --------------------------------------------------------------------------
class IsChannel(Contract):
    """req_func is_channel(mm): chip region absent or 'channel' (verified as a unit below)"""
    name = "AF.req_func"

    def __init__(self, insts_by_uid):
        self.by_uid = insts_by_uid
        super().__init__()

    def __call__(self, interp, af, ds):
        inst = self.by_uid[af.uid]
        rf = getattr(inst.req_func, "__name__", "")
        ctx = interp.ctx
        if rf == "is_channel":
            has = z3.And(_presence(ctx, "sec", "setup").e, _presence(ctx, "cfg", "setup:chip region").e)
            return wrap(z3.Or(z3.Not(has), z3.Bool("chip_region_is_channel")))
        if rf == "has_ml_scores":
            return ctx.bool("has_ml_scores")
        return True


class IsAvailable(Contract):
    """AncillaryFeature.is_available(self, rtdc_ds) == every required section / key /
    feature is present, no instance of the same feature with a strictly higher
    priority is available, and req_func holds -- for every registered instance, on
    a dataset whose keys and features are present or absent symbolically"""
    path = ANC + "ancillary_feature.py"
    module = "dclab.rtdc_dataset.feat_anc_core.ancillary_feature"
    qualname = "AncillaryFeature.is_available"
    classes = {"AF": (ANC + "ancillary_feature.py", "AncillaryFeature")}
    class_modules = {"AF": "dclab.rtdc_dataset.feat_anc_core.ancillary_feature"}
    inline = {"AncillaryFeature.is_available", "AF.is_available"}
    params = ("self", "rtdc_ds", "verbose")

    def __init__(self, inst, insts):
        self.inst, self.insts = inst, insts
        self.name = "is_available of " + inst_tag(inst)
        super().__init__()

    def get_globals(self):
        g = dict(super().get_globals())
        g["AncillaryFeature"] = self._cls
        return g

    def inputs(self, ctx):
        ds = ctx.obj("AncDS", {"_N": ctx.int("N", lo=1), "config": ctx.obj("Cfg", {}), "_feature_candidates": []},
                     name="ds")
        same = [i for i in self.insts if i.feature_name == self.inst.feature_name]
        objs, by_uid = [], {}
        me = None
        for i in same:
            o = ctx.obj("AF", {"req_features": list(i.req_features),
                               "req_config": [[sec, list(keys)] for sec, keys in i.req_config],
                               "feature_name": i.feature_name, "priority": i.priority}, name="af")
            by_uid[o.uid] = i
            objs.append(o)
            if i is self.inst:
                me = o
        # instances of other features do not matter to the method: one representative
        other = ctx.obj("AF", {"req_features": [], "req_config": [], "feature_name": "<another feature>",
                               "priority": 99}, name="af_other")
        by_uid[other.uid] = self.inst
        self._cls = ctx.obj("AFClass", {"features": objs + [other]}, name="AncillaryFeature")
        self.callees = {"AF.req_func": IsChannel(by_uid)}
        ctx.assume(z3.Bool("chip_region_is_channel") == _flag(ctx, "chip_region_is_channel").e)
        self.cfg_reads, self.feature_reads = set(), set()
        return {"self": me, "rtdc_ds": ds, "verbose": False}

    def ensures(self, ctx, old, a, result):
        spec = avail_formula(ctx, self.inst, self.insts)
        if getattr(self.inst.req_func, "__name__", "") == "has_ml_scores":
            spec = z3.And(spec, z3.Bool("has_ml_scores"))
        return [("is_available == requirements present, no higher-priority instance available, req_func",
                 to_z3(result, "bool") == spec)]


def _distinct_instances(insts):
    seen, out = set(), []
    for i in insts:
        key = (i.feature_name, i.priority, tuple(i.req_features), repr(i.req_config), getattr(i.req_func, "__name__", ""))
        if key not in seen:
            seen.add(key)
            out.append(i)
    return out


_INSTS = registry()
UNITS += [IsAvailable(i, _INSTS) for i in _distinct_instances(_INSTS)
          if i.feature_name in ("emodulus", "fl1_max_ctc", "fl3_max_ctc", "time", "volume", "ml_class")]


# --------------------------------------------------------------------------
# layer 2: the cache protocol of RTDCBase._get_ancillary_feature_data
# --------------------------------------------------------------------------
VAL = z3.Function("value_computed_in_state_with_hash", Elem, Elem)       # ghost: method(state) by hash(state)
VAL2 = z3.Function("second_output_computed_in_state_with_hash", Elem, Elem)


class AvailableFeatures(Contract):
    """AncillaryFeature.available_features(ds): {name: selected instance} (layer 3)"""
    name = "AFClass.available_features"
    trusted = False

    def __call__(self, interp, cls, ds):
        ctx = interp.ctx
        unit = interp.cur_frame.unit
        if ctx.decide(ctx.bool("feature_is_available", inp=True)):
            return {unit.feat: unit._inst}
        return {}


class InstHash(Contract):
    name = "AFI.hash"

    def __call__(self, interp, inst, ds):
        interp.cur_frame.unit._hash_calls += 1
        return interp.cur_frame.unit._H


class InstCompute(Contract):
    """AncillaryFeature.compute(ds): the method's outputs in the current state"""
    name = "AFI.compute"

    def __call__(self, interp, inst, ds):
        unit = interp.cur_frame.unit
        unit._computed += 1
        H = unit._H
        return {unit.feat: SOpaque(VAL(H.e)), "second_output": SOpaque(VAL2(H.e))}


class CacheProtocol(Contract):
    """RTDCBase._get_ancillary_feature_data(feat, no_compute): with every cached entry
    (h, d) holding d == value computed in the state with hash h (invariant), the
    call returns None exactly when the feature is unavailable or (no_compute and
    no entry with the current hash exists), otherwise the value computed in the
    *current* state; the invariant is preserved; nothing is computed when an entry
    with the current hash exists."""
    path = "dclab/rtdc_dataset/core.py"
    module = "dclab.rtdc_dataset.core"
    qualname = "RTDCBase._get_ancillary_feature_data"
    classes = {"DSC": ("dclab/rtdc_dataset/core.py", "RTDCBase")}
    class_modules = {"DSC": "dclab.rtdc_dataset.core"}
    params = ("self", "feat", "no_compute")
    feat = "emodulus"

    def __init__(self, cached):
        self.cached = cached
        self.name = f"RTDCBase._get_ancillary_feature_data[{'entry cached' if cached else 'nothing cached'}]"
        super().__init__()
        self.callees = {"AFClass.available_features": AvailableFeatures(), "AFI.hash": InstHash(),
                        "AFI.compute": InstCompute()}

    def get_globals(self):
        g = dict(super().get_globals())
        g["AncillaryFeature"] = self._cls
        return g

    def inputs(self, ctx):
        self._H = SOpaque(ctx.const("hash_of_current_state", Elem), str)
        ctx.assume(models.clen(self._H.e) == 32)        # an md5 hexdigest
        self._inst = ctx.obj("AFI", {}, name="selected_instance")
        self._cls = ctx.obj("AFClass", {"feature_names": [self.feat, "second_output", "volume"]}, name="AncillaryFeature")
        self._computed = 0
        self._hash_calls = 0
        anc = {}
        if self.cached:
            self._h_old = SOpaque(ctx.const("hash_when_cached", Elem), str)
            anc[self.feat] = (self._h_old, SOpaque(VAL(self._h_old.e)))
        ds = ctx.obj("DSC", {"_ancillaries": anc}, name="ds")
        self._ds = ds
        return {"self": ds, "feat": self.feat, "no_compute": ctx.bool("no_compute", inp=True)}

    def ensures(self, ctx, old, a, result):
        avail = z3.Bool("feature_is_available")
        nc = a.no_compute.e
        H = self._H.e
        hit = z3.BoolVal(False) if not self.cached else (self._h_old.e == H)
        none_expected = z3.Or(z3.Not(avail), z3.And(nc, z3.Not(hit)))
        posts = [("None is returned exactly when the feature is unavailable, or not computed yet for the current "
                  "state and no_compute is set", z3.BoolVal(result is None) == none_expected)]
        if result is not None:
            posts.append(("the returned data are the value computed in the current state",
                          to_z3(result) == VAL(H)))
            posts.append(("nothing is recomputed when an entry with the current hash exists",
                          z3.Implies(hit, z3.BoolVal(self._computed == 0))))
        anc = self._ds.fields["_ancillaries"]
        inv = []
        for k, (h, d) in anc.items():
            fn = VAL if k == self.feat else VAL2
            inv.append(to_z3(d) == fn(to_z3(h)))
        posts.append(("every cached entry still holds the value computed in the state of its hash",
                      z3.And(*inv) if inv else z3.BoolVal(True)))
        return posts


UNITS += [CacheProtocol(False), CacheProtocol(True)]


class GetInstances(Contract):
    """AncillaryFeature.get_instances(name): the registered recipes of that name"""
    name = "AFClass.get_instances"
    trusted = True

    def __call__(self, interp, cls, feat):
        return list(interp.cur_frame.unit._insts)


class InstAvailable(Contract):
    """AncillaryFeature.is_available(ds) of one recipe (layer 3)"""
    name = "AFI.is_available"

    def __call__(self, interp, inst, ds):
        return interp.ctx.bool(f"recipe_{inst.fields['k']}_is_available", inp=True)


class Contains(Contract):
    """RTDCBase.__contains__(feat) for a computed feature that is neither stored, temporary
    nor in a basin: True exactly when one of its recipes is available in the *current*
    state -- whatever the cache holds from earlier states (reading succeeds exactly
    then: _get_ancillary_feature_data above)"""
    path = "dclab/rtdc_dataset/core.py"
    module = "dclab.rtdc_dataset.core"
    qualname = "RTDCBase.__contains__"
    classes = {"DSC": ("dclab/rtdc_dataset/core.py", "RTDCBase")}
    class_modules = {"DSC": "dclab.rtdc_dataset.core"}
    params = ("self", "feat")
    feat = "emodulus"

    def __init__(self, cached):
        self.cached = cached
        self.name = f"RTDCBase.__contains__[computed feature, {'entry cached' if cached else 'nothing cached'}]"
        super().__init__()
        self.callees = {"AFClass.get_instances": GetInstances(), "AFI.is_available": InstAvailable()}

    def get_globals(self):
        g = dict(super().get_globals())
        g["AncillaryFeature"] = self._cls
        return g

    def inputs(self, ctx):
        self._cls = ctx.obj("AFClass", {"feature_names": [self.feat, "volume"]}, name="AncillaryFeature")
        self._insts = [ctx.obj("AFI", {"k": k}, name=f"recipe_{k}") for k in range(3)]
        anc = {}
        if self.cached:
            h = SOpaque(ctx.const("hash_when_cached", Elem), str)
            anc[self.feat] = (h, SOpaque(VAL(h.e)))
        ds = ctx.obj("DSC", {"_ancillaries": anc, "_events": {"deform": 1, "area_um": 2}, "_usertemp": {},
                             "features_basin": []}, name="ds")
        return {"self": ds, "feat": self.feat}

    def ensures(self, ctx, old, a, result):
        want = z3.Or(*[z3.Bool(f"recipe_{k}_is_available") for k in range(3)])
        return [("a computed feature is reported as contained exactly when one of its recipes is available now",
                 to_z3(result, "bool") == want)]


UNITS += [Contains(False), Contains(True)]


# --------------------------------------------------------------------------
# temporary features set through a hierarchy child
# --------------------------------------------------------------------------
import numpy as _np   # noqa: E402
from pyvc.sym import F as _F   # noqa: E402

_prev_empty = models._MODELS[_np.empty]


def _np_empty_F(interp, shape, dtype=float, **kw):
    if getattr(getattr(interp.cur_frame, "unit", None), "float_arrays_F", False) and dtype is float:
        n = shape[0] if isinstance(shape, tuple) else shape
        return interp.ctx.arr("empty", "F", n=to_z3(n), dtype=_np.dtype("float64"))
    return _prev_empty(interp, shape, dtype=dtype, **kw)


models._MODELS[_np.empty] = _np_empty_F


class SetTempChild(Contract):
    """set_temporary_feature(child, feature, data) for a hierarchy child: the root parent
    receives an array of its own length that holds data[j] at the root index of child
    event j and NaN everywhere else, and only afterwards the child is rejuvenated (so
    that everything derived from the feature is recomputed from the new data)."""
    path = "dclab/rtdc_dataset/feat_temp.py"
    module = "dclab.rtdc_dataset.feat_temp"
    qualname = "set_temporary_feature"
    name = "set_temporary_feature[hierarchy child]"
    params = ("rtdc_ds", "feature", "data")
    float_arrays_F = True

    class Exists(Contract):
        name = "feature_exists"
        trusted = True

        def __call__(self, interp, feat, *a, **k):
            return True

    class C2R(Contract):
        """map_indices_child2root(child, indices 0..n-1): the root index of every child event --
        in range and pairwise distinct (C04)"""
        name = "map_indices_child2root"

        def __call__(self, interp, child, idx):
            ctx = interp.ctx
            u = interp.cur_frame.unit
            ids = ctx.arr("root_ids", "int", n=u._n.e)
            i, j = z3.Int("i!c2r"), z3.Int("j!c2r")
            ctx.assume(z3.ForAll([i], z3.Implies(z3.And(i >= 0, i < ids.n), z3.And(ids.sel(i) >= 0, ids.sel(i) < u._nroot.e))))
            ctx.assume(z3.ForAll([i, j], z3.Implies(z3.And(i >= 0, i < j, j < ids.n), ids.sel(i) != ids.sel(j))))
            u._ids = ids
            return ids

    class Self(Contract):
        name = "set_temporary_feature"

        def __call__(self, interp, ds, feature, data):
            u = interp.cur_frame.unit
            u._trace.append(("set", ds, feature, SArr(data.n, data.a, data.kind)))
            return None

    def __init__(self):
        super().__init__()
        self.callees = {"feature_exists": self.Exists(), "map_indices_child2root": self.C2R(),
                        "set_temporary_feature": self.Self()}

    def inputs(self, ctx):
        import dclab
        self._n = ctx.int("n_child", lo=0, inp=True)
        self._nroot = ctx.int("n_root", lo=0, inp=True)
        ctx.assume(self._n.e <= self._nroot.e)
        self._trace = []
        self._ids = None
        self._root = ctx.obj("RootDS", {"_N": self._nroot}, name="root")
        child = ctx.obj("ChildDS", {"_N": self._n, "_events": {}, "_usertemp": {}, "_ancillaries": {}}, name="child")
        child.realcls = dclab.rtdc_dataset.fmt_hierarchy.RTDC_Hierarchy
        self._child = child
        self._data = ctx.arr("data", "F", n=self._n.e, inp=True)
        return {"rtdc_ds": child, "feature": "tmp_score", "data": self._data}

    def ensures(self, ctx, old, a, result):
        tr = self._trace
        ok_order = len(tr) == 2 and tr[0][0] == "set" and tr[0][1] is self._root and tr[0][2] == "tmp_score" \
            and tr[1] == ("rejuvenate", self._child)
        posts = [("the root parent is given the data first, then the child is rejuvenated", z3.BoolVal(ok_order))]
        if tr and tr[0][0] == "set" and self._ids is not None:
            R, ids = tr[0][3], self._ids
            j, k = z3.Int("j!st"), z3.Int("k!st")
            posts.append(("the root receives data[j] at the root index of child event j and NaN at every other event",
                          z3.And(R.n == self._nroot.e,
                                 z3.ForAll([j], z3.Implies(z3.And(j >= 0, j < self._n.e), R.sel(ids.sel(j)) == self._data.sel(j))),
                                 z3.ForAll([k], z3.Implies(z3.And(k >= 0, k < self._nroot.e,
                                                                  z3.Not(z3.Exists([j], z3.And(j >= 0, j < self._n.e,
                                                                                               ids.sel(j) == k)))),
                                                           _F.is_nan(R.sel(k)))))))
        return posts


def _child_len(interp, ds):
    return ds.fields["_N"]


h5model.OBJ_METHODS[("ChildDS", "__len__")] = _child_len
h5model.OBJ_METHODS[("RootDS", "__len__")] = _child_len
h5model.OBJ_METHODS[("ChildDS", "get_root_parent")] = lambda interp, ds: interp.cur_frame.unit._root
h5model.OBJ_METHODS[("ChildDS", "rejuvenate")] = lambda interp, ds: interp.cur_frame.unit._trace.append(("rejuvenate", ds))

UNITS += [SetTempChild()]
