"""C18 — contour-, image- and fluorescence-derived features obey their definitions
(the clauses a contract can decide: brightness statistics with offsets,
crosstalk inversion, the algebra of the volume of revolution)."""
import numpy as np
import z3

from pyvc import models, npmodel, h5model, payload   # noqa: F401
from pyvc.contract import Contract
from pyvc.engine import LoopSpec, NS, PyRaise
from pyvc.payload import CAST_INT, PSUB, PSELECT, MEAN, STD, PERC
from pyvc.sym import SArr, SObj, SOpaque, Elem, Z, to_z3, wrap

FEAT = "dclab/features/"


def _events(ctx, name, n):
    a = ctx.arr(name, "elem", n=n)
    a.is_list = True
    return a


class Bright(Contract):
    """get_bright / get_bright_bc / get_bright_perc on lists of N events: entry k of
    every output is the statistic (mean, standard deviation, 10th / 90th percentile)
    of the pixels of image k (minus background image k, after the cast to int)
    selected by mask k, minus the offset bg_off[k] when an offset is given (the
    offset shifts averages and percentiles one-to-one and leaves the deviation
    unchanged); events do not influence each other."""
    payload_stats = True

    def __init__(self, which, bg_off):
        self.which, self.bg_off = which, bg_off
        self.path = FEAT + {"bright": "bright.py", "bright_bc": "bright_bc.py", "bright_perc": "bright_perc.py"}[which]
        self.module = "dclab.features." + which
        self.qualname = "get_" + which
        self.name = f"get_{which}[lists of events{', with bg_off' if bg_off else ''}]"
        self.params = {"bright": ("mask", "image", "ret_data"),
                       "bright_bc": ("mask", "image", "image_bg", "bg_off", "ret_data"),
                       "bright_perc": ("mask", "image", "image_bg", "bg_off")}[which]
        super().__init__()
        self.loops = {"ii in range(length)": LoopSpec(inv=self.inv, modifies=self.mods)}

    def mods(self, ctx, v):
        return [getattr(v, nm) for nm in ("avg", "std", "p10", "p90") if hasattr(v, nm)]

    def inputs(self, ctx):
        n = ctx.int("N", lo=0, inp=True)
        self._n = n.e
        self._mask, self._img = _events(ctx, "mask", n.e), _events(ctx, "image", n.e)
        d = {"mask": self._mask, "image": self._img}
        if self.which != "bright":
            self._bg = _events(ctx, "image_bg", n.e)
            d["image_bg"] = self._bg
            self._off = ctx.arr("bg_off", "real", n=n.e) if self.bg_off else None
            d["bg_off"] = self._off
        if self.which != "bright_perc":
            d["ret_data"] = "avg,sd"
        return d

    def pixels(self, k):
        img = self._img.sel(k)
        if self.which != "bright":
            img = PSUB(CAST_INT(img), self._bg.sel(k))
        return PSELECT(img, self._mask.sel(k))

    def raw(self, name, k):
        px = self.pixels(k)
        return {"avg": MEAN(px), "std": STD(px), "p10": PERC(px, z3.RealVal(10)), "p90": PERC(px, z3.RealVal(90))}[name]

    def outputs(self):
        return ("p10", "p90") if self.which == "bright_perc" else ("avg", "std")

    def inv(self, ctx, v):
        k = z3.Int("k!br")
        ii = to_z3(v.it)
        out = []
        for nm in self.outputs():
            arr = getattr(v, nm)
            out.append((f"{nm}[k] is the statistic of event k alone, for every event handled so far",
                        z3.And(arr.n == self._n,
                               z3.ForAll([k], z3.Implies(z3.And(k >= 0, k < ii), arr.sel(k) == self.raw(nm, k))))))
        return out

    def ensures(self, ctx, old, a, result):
        k = z3.Int("k!bq")
        res = list(result) if isinstance(result, (list, tuple)) else [result]
        posts = [("one output per statistic", z3.BoolVal(len(res) == 2))]
        for nm, arr in zip(self.outputs(), res):
            shift = self._off.sel(k) if (self.which != "bright" and self.bg_off and nm != "std") else z3.RealVal(0)
            posts.append((f"{nm}[k] == statistic of event k" + (" - bg_off[k]" if self.bg_off and nm != "std" else ""),
                          z3.And(arr.n == self._n,
                                 z3.ForAll([k], z3.Implies(z3.And(k >= 0, k < self._n),
                                                           arr.sel(k) == self.raw(nm, k) - shift)))))
        return posts


# --------------------------------------------------------------------------
INV = [[z3.Real(f"inv{i}{j}") for j in range(3)] for i in range(3)]


class LinalgInv(Contract):
    """np.linalg.inv(M) for a 3x3 matrix: N-LINALG-INV -- raises LinAlgError for a
    singular matrix, otherwise returns X with M X == X M == I"""
    name = "np.linalg.inv"
    trusted = True

    def __call__(self, interp, m):
        ctx = interp.ctx
        M = [[to_z3(m[i][j], "real") for j in range(3)] for i in range(3)]
        det = (M[0][0] * (M[1][1] * M[2][2] - M[1][2] * M[2][1]) - M[0][1] * (M[1][0] * M[2][2] - M[1][2] * M[2][0])
               + M[0][2] * (M[1][0] * M[2][1] - M[1][1] * M[2][0]))
        if ctx.decide(wrap(det == 0)):
            raise PyRaise(np.linalg.LinAlgError, ("Singular matrix",))
        models.axiom("N-LINALG-INV (inv(M) is the two-sided inverse of a non-singular M)")
        X = INV
        for i in range(3):
            for j in range(3):
                ctx.assume(sum(M[i][l] * X[l][j] for l in range(3)) == (1 if i == j else 0))
                ctx.assume(sum(X[i][l] * M[l][j] for l in range(3)) == (1 if i == j else 0))
        return interp.ctx.obj("Mat3", {"rows": [[wrap(X[i][j]) for j in range(3)] for i in range(3)]})


def _mat_getitem(interp, m, key):
    from pyvc.engine import Unsupported
    rows = m.fields["rows"]
    if isinstance(key, tuple) and len(key) == 2 and key[0] == slice(None) and isinstance(key[1], int):
        return interp.ctx.obj("Vec3", {"v": [rows[i][key[1]] for i in range(3)]})
    if isinstance(key, tuple) and len(key) == 2 and isinstance(key[0], int) and key[1] == slice(None):
        return interp.ctx.obj("Vec3", {"v": list(rows[key[0]])})
    if isinstance(key, int):
        return interp.ctx.obj("Vec3", {"v": list(rows[key])})
    raise Unsupported("matrix index")


h5model.OBJ_METHODS[("Mat3", "__getitem__")] = _mat_getitem
h5model.OBJ_METHODS[("Vec3", "flatten")] = lambda interp, v: v
h5model.OBJ_METHODS[("Vec3", "__getitem__")] = lambda interp, v, k: v.fields["v"][k]


def _np_array_matrix(interp, obj, dtype=None, **kw):
    if isinstance(obj, list) and len(obj) == 3 and all(isinstance(r, list) and len(r) == 3 for r in obj) \
            and getattr(getattr(interp.cur_frame, "unit", None), "matrix3", False):
        return obj       # a 3x3 nested list stands for the matrix
    return _prev_arr(interp, obj, dtype=dtype, **kw)


_prev_arr = models._MODELS[np.array]
models._MODELS[np.array] = _np_array_matrix
models._MODELS[np.linalg.inv] = lambda interp, m: LinalgInv()(interp, m)


class CorrectCrosstalk(Contract):
    """correct_crosstalk(fl1, fl2, fl3, k, ct..): with true signals t1..t3 and
    measured signals fl_j = sum_i t_i * ct_ij (ct_ii = 1; ct_ij: spill from channel i
    into channel j), the corrected signal of channel k is t_k -- the correction
    exactly inverts the spill-over it models; raises only for negative matrix
    elements or a singular spill-over matrix."""
    path = FEAT + "fl_crosstalk.py"
    module = "dclab.features.fl_crosstalk"
    qualname = "correct_crosstalk"
    inline = {"get_compensation_matrix"}
    params = ("fl1", "fl2", "fl3", "fl_channel", "ct21", "ct31", "ct12", "ct32", "ct13", "ct23")
    matrix3 = True

    def __init__(self, channel):
        self.channel = channel
        self.name = f"correct_crosstalk[channel {channel}]"
        super().__init__()

    def inputs(self, ctx):
        t = [ctx.real(f"true{i + 1}", inp=True) for i in range(3)]
        c = {}
        for i in "123":
            for j in "123":
                if i != j:
                    c[i + j] = ctx.real("ct" + i + j, inp=True)
                    ctx.assume(c[i + j].e >= 0)

        def C(i, j):
            return z3.RealVal(1) if i == j else c[f"{i + 1}{j + 1}"].e
        fl = [sum(t[i].e * C(i, j) for i in range(3)) for j in range(3)]
        self._t, self._C = t, C
        d = {"fl1": wrap(fl[0]), "fl2": wrap(fl[1]), "fl3": wrap(fl[2]), "fl_channel": self.channel}
        d.update({"ct" + k: v for k, v in c.items()})
        return d

    def ensures(self, ctx, old, a, result):
        # lemma (a polynomial identity, proved without hypotheses): regrouping of the double sum
        k = self.channel - 1
        t, C, X = self._t, self._C, INV
        lhs = sum(sum(t[i].e * C(i, j) for i in range(3)) * X[j][k] for j in range(3))
        S = [z3.Real(f"cx{i}") for i in range(3)]        # names for (C X)[i][k]
        ctx.lemma(z3.Implies(z3.And(*[S[i] == sum(C(i, j) * X[j][k] for j in range(3)) for i in range(3)]),
                             lhs == sum(t[i].e * S[i] for i in range(3))),
                  "regrouping: sum_j (sum_i t_i C_ij) X_jk == sum_i t_i (C X)_ik")
        for i in range(3):
            ctx.assume(S[i] == sum(C(i, j) * X[j][k] for j in range(3)))     # definitions of the names
        return [("the corrected signal of the channel is the true signal of that channel",
                 to_z3(result, "real") == self._t[self.channel - 1].e)]

    def exceptional(self, ctx, old, a, exc):
        if exc.name == "LinAlgError":
            return z3.BoolVal(True)      # singular spill-over matrix: nothing to invert
        return None


UNITS = [Bright("bright", False), Bright("bright_bc", False), Bright("bright_bc", True),
         Bright("bright_perc", False), Bright("bright_perc", True)] + [CorrectCrosstalk(k) for k in (1, 2, 3)]
TRUSTED = [LinalgInv()]
TRUSTED_BASE = ["P-CAST, P-SUB, P-SELECT, P-MEAN, P-STD, P-PERC: numpy operations on one event are functions of the payloads "
                "they are given", "N-LINALG-INV", "real arithmetic stands for floating point"]
ASSUMPTIONS = ["not decided by contracts (stated in DESIGN.md): contour tracing of masks (marching squares) and refilling, rotation "
               "invariance of the principal inertia ratio (trigonometry), convergence of the volume for discretised spheres"]


# --------------------------------------------------------------------------
# inertia ratio: the caller's contour is not modified (frame)
# --------------------------------------------------------------------------
def _np_array_contour(interp, obj, dtype=None, copy=None, **kw):
    """np.array(contour, dtype, copy=True) is a new array; np.asarray / copy=False
    returns the very same array when the dtype already matches (decided symbolically)"""
    if isinstance(obj, SObj) and obj.clsname == "Contour":
        same_dtype = obj.fields["is_float64"]
        if copy is True or copy is None and interp.cur_frame.unit.np_array_copies:
            c = interp.ctx.obj("Contour", {"is_float64": True, "_written": False, "_origin": obj}, name="copy")
            return c
        if interp.ctx.decide(same_dtype):
            return obj
        return interp.ctx.obj("Contour", {"is_float64": True, "_written": False, "_origin": obj}, name="cast")
    return _prev_arr2(interp, obj, dtype=dtype, **kw)


_prev_arr2 = models._MODELS[np.array]
models._MODELS[np.array] = _np_array_contour
_prev_asarray = models._MODELS[np.asarray]


def _np_asarray_contour(interp, obj, dtype=None, **kw):
    if isinstance(obj, SObj) and obj.clsname == "Contour":
        return _np_array_contour(interp, obj, dtype=dtype, copy=False)
    return _prev_asarray(interp, obj, dtype=dtype, **kw)


models._MODELS[np.asarray] = _np_asarray_contour


def _contour_getitem(interp, c, key):
    return SOpaque(interp.ctx.const("contour_column", Elem))


def _contour_setitem(interp, c, key, val):
    interp.heap_write(c)
    c.fields["_written"] = True
    return None


h5model.OBJ_METHODS[("Contour", "__getitem__")] = _contour_getitem
h5model.OBJ_METHODS[("Contour", "__setitem__")] = _contour_setitem


class Moments(Contract):
    """cont_moments_cv(cont): reads the contour, returns the moments or None"""
    name = "cont_moments_cv"
    trusted = True

    def __call__(self, interp, cont, *a, **k):
        ctx = interp.ctx
        # defined or not is a property of the contour's area, which a rotation keeps
        if "_has_moments" not in cont.fields:
            cont.fields["_has_moments"] = ctx.decide(ctx.bool("moments_defined"))
        if cont.fields["_has_moments"]:
            return {k_: SOpaque(ctx.const("moment_" + k_, Elem)) for k_ in ("mu11", "mu02", "mu20", "m00")}
        return None


class InertRatioFrame(Contract):
    """get_inert_ratio_prnc(cont) rotates a *copy* of every contour: the caller's
    contour arrays are not written to, whatever their dtype"""
    path = FEAT + "inert_ratio.py"
    module = "dclab.features.inert_ratio"
    qualname = "get_inert_ratio_prnc"
    name = "get_inert_ratio_prnc[frame: the given contours are not modified]"
    params = ("cont",)
    opaque_arith = "fallback"
    np_array_copies = True      # np.array(x) copies by default

    def __init__(self):
        super().__init__()
        self.callees = {"cont_moments_cv": Moments()}

    def inputs(self, ctx):
        self._conts = [ctx.obj("Contour", {"is_float64": ctx.bool(f"contour{i}_is_float64", inp=True),
                                           "_written": False}, name=f"contour{i}") for i in range(2)]
        return {"cont": list(self._conts)}

    def ensures(self, ctx, old, a, result):
        return [("no contour handed in by the caller has been written to",
                 z3.BoolVal(not any(c.fields["_written"] for c in self._conts)))]


# --------------------------------------------------------------------------
# volume: algebra of one truncated cone, and the data flow of get_volume
# --------------------------------------------------------------------------
def cone(r, R, dz):
    """volume term of one contour segment as written in vol_revolve (without pi/3)"""
    dr = R - r
    t = 3 * r * r + 3 * r * dr + dr * dr
    return dz * z3.If(t >= 0, t, -t)


def lemmas_volume():
    import time
    r, R, dz, s = z3.Reals("r R dz s")
    out = []
    for name, goal in (
            ("a segment traversed in the opposite direction contributes the negated volume (orientation flips the sign)",
             cone(R, r, -dz) == -cone(r, R, dz)),
            ("the segment term is the truncated-cone formula dz (R^2 + R r + r^2) for non-negative radii",
             z3.Implies(z3.And(r >= 0, R >= 0), cone(r, R, dz) == dz * (R * R + R * r + r * r))),
            ("scaling radii and heights by s scales the segment volume by s^3 (cube of the pixel size)",
             z3.Implies(s > 0, cone(s * r, s * R, s * dz) == s * s * s * cone(r, R, dz)))):
        sol = z3.Solver()
        sol.set("timeout", 20000)
        sol.add(z3.Not(goal))
        t0 = time.time()
        res = sol.check()
        out.append({"lemma": name, "verdict": str(res), "time_s": round(time.time() - t0, 3)})
    return out


LEMMAS = ["lemmas_volume"]


class VolStub(Contract):
    name = "vol_revolve"
    trusted = True

    def __call__(self, interp, r, z, point_scale=1.0):
        from pyvc.engine import sig_of, SIGS
        res = SOpaque(interp.ctx.const("vol", Elem))
        SIGS[id(res)] = (res, ("vol_revolve", sig_of(r), sig_of(z), sig_of(point_scale)))
        interp.cur_frame.unit._vol_calls.append((sig_of(r), sig_of(z), sig_of(point_scale)))
        return res


class CcwStub(Contract):
    name = "counter_clockwise"
    trusted = True

    def __call__(self, interp, cx, cy):
        """the two coordinate arrays in counter-clockwise order: new values (possibly both reversed) that belong together"""
        from pyvc.engine import sig_of, SIGS
        interp.cur_frame.unit._ccw_args = (sig_of(cx), sig_of(cy))
        out = []
        for i in (0, 1):
            r = SOpaque(interp.ctx.const(f"ccw_out{i}", Elem))
            SIGS[id(r)] = (r, ("ccw", i, sig_of(cx), sig_of(cy)))
            out.append(r)
        return tuple(out)


class VolumeDataflow(Contract):
    """get_volume(cont, pos_x, pos_y, pix) for one event: the orientation test
    (counter_clockwise, which requires coordinates centred at the origin) and both
    half volumes are computed from the contour *relative to the centroid*
    (cc[:, 0] - pos_x / pix, cc[:, 1] - pos_y / pix), and the result is the mean of
    the two half volumes scaled with the pixel size."""
    path = FEAT + "volume.py"
    module = "dclab.features.volume"
    qualname = "get_volume"
    name = "get_volume[data flow, one event]"
    params = ("cont", "pos_x", "pos_y", "pix", "fix_orientation")
    opaque_arith = "fallback"

    def __init__(self):
        super().__init__()
        self.callees = {"vol_revolve": VolStub(), "counter_clockwise": CcwStub()}

    def inputs(self, ctx):
        class _C:
            pass
        cc = ctx.obj("Contour2", {"shape": (ctx.int("n_points", lo=4), 2)}, name="cc")
        self._px = ctx.real("pos_x")
        self._py = ctx.real("pos_y")
        self._pix = ctx.real("pix")
        ctx.assume(self._pix.e > 0)
        self._ccw_args = None
        self._vol_calls = []
        fake = NS({"ctx": ctx, "cur_frame": None})
        px = models.arr_new(fake, Z(1), lambda k: self._px.e, "real")
        py = models.arr_new(fake, Z(1), lambda k: self._py.e, "real")
        return {"cont": [cc], "pos_x": px, "pos_y": py, "pix": self._pix, "fix_orientation": True}

    def ensures(self, ctx, old, a, result):
        cx = ("Sub", ("contour", 0), ("sym", str(self._px.e / self._pix.e)))
        cy = ("Sub", ("contour", 1), ("sym", str(self._py.e / self._pix.e)))
        calls = self._vol_calls
        # r derives from the first, z from the second output of the orientation step -- the pair belongs together: a
        # coordinate array taken from before the re-orientation must not be combined with a re-oriented one
        ok = len(calls) == 2 and all(repr(("ccw", 0, cy, cx))[:-1] in repr(c[0]) and repr(("ccw", 1, cy, cx))[:-1] in repr(c[1])
                                     and "('ccw', 1" not in repr(c[0]) and "('ccw', 0" not in repr(c[1])
                                     and c[2] == ("sym", "pix") for c in calls)
        return [("the orientation test receives the coordinates relative to the centroid (r = y - pos_y/pix, z = x - pos_x/pix)",
                 z3.BoolVal(self._ccw_args == (cy, cx))),
                ("both half volumes are computed from the centred, re-oriented pair (r, z) with the pixel size as scale",
                 z3.BoolVal(ok))]


def _c2_getitem(interp, c, key):
    from pyvc.engine import SIGS
    if isinstance(key, tuple) and len(key) == 2 and key[0] == slice(None) and key[1] in (0, 1):
        r = SOpaque(interp.ctx.const(f"contour_col{key[1]}", Elem))
        SIGS[id(r)] = (r, ("contour", key[1]))
        return r
    from pyvc.engine import Unsupported
    raise Unsupported("contour index")


h5model.OBJ_METHODS[("Contour2", "__getitem__")] = _c2_getitem

UNITS += [InertRatioFrame(), VolumeDataflow()]
TRUSTED += [Moments(), VolStub(), CcwStub()]


# --------------------------------------------------------------------------
# replay on the real code
# --------------------------------------------------------------------------
def _rand_events(rng, n, float_bg):
    img = [rng.integers(0, 255, (7, 9)).astype(np.uint8) for _ in range(n)]
    bg = [(rng.uniform(0, 60, (7, 9)) if float_bg else rng.integers(0, 60, (7, 9)).astype(np.int16)) for _ in range(n)]
    m = [rng.random((7, 9)) > 0.4 for _ in range(n)]
    for mm in m:
        mm[0, 0] = True
    return img, bg, m


# --------------------------------------------------------------------------
# LazyContourList: the contour served for event i is the contour of mask i
# --------------------------------------------------------------------------
MASK = z3.Function("mask_of_event", z3.IntSort(), Elem)
CONT = z3.Function("contour_of_mask", Elem, Elem)        # ghost: get_contour as a function of the mask


def _deq(ctx, name, sort, n, maxlen):
    return ctx.obj("Deq", {"a": z3.Const(name, z3.ArraySort(z3.IntSort(), sort)), "n": n, "maxlen": maxlen}, name=name)


def _deq_index(interp, dq, x):
    """deque.index(x): the first position holding x, ValueError when there is none"""
    ctx = interp.ctx
    a, n = dq.fields["a"], dq.fields["n"]
    xe = to_z3(x)
    j = z3.Int("j!")
    if ctx.decide(ctx.bool("found_in_deque")):
        q = ctx.int("first_position").e
        ctx.assume(z3.And(q >= 0, q < n, a[q] == xe, z3.ForAll([j], z3.Implies(z3.And(j >= 0, j < q), a[j] != xe))))
        return wrap(q)
    ctx.assume(z3.ForAll([j], z3.Implies(z3.And(j >= 0, j < n), a[j] != xe)))
    raise PyRaise(ValueError, ("not in deque",))


def _deq_getitem(interp, dq, k):
    ke = to_z3(k)
    if not interp.ctx.decide(wrap(z3.And(ke >= 0, ke < dq.fields["n"]))):
        raise PyRaise(IndexError, ("deque index out of range",))
    v = dq.fields["a"][ke]
    return wrap(v) if v.sort() == z3.IntSort() else SOpaque(v)


def _deq_append(interp, dq, v):
    """deque.append: at maxlen the oldest entry (position 0) is dropped"""
    ctx = interp.ctx
    interp.heap_write(dq)
    a, n, m = dq.fields["a"], dq.fields["n"], dq.fields["maxlen"]
    ve = to_z3(v)
    k = z3.Int("k!")
    if m is not None and ctx.decide(wrap(n == m)):
        dq.fields["a"] = z3.Lambda([k], z3.If(k == n - 1, ve, a[k + 1]))
    else:
        dq.fields["a"] = z3.Store(a, n, ve)
        dq.fields["n"] = n + 1
    return None


def _deq_delitem(interp, dq, kk):
    interp.heap_write(dq)
    a, n = dq.fields["a"], dq.fields["n"]
    ke = to_z3(kk)
    if not interp.ctx.decide(wrap(z3.And(ke >= 0, ke < n))):
        raise PyRaise(IndexError, ("deque index out of range",))
    k = z3.Int("k!")
    dq.fields["a"] = z3.Lambda([k], z3.If(k < ke, a[k], a[k + 1]))
    dq.fields["n"] = n - 1
    return None


for _nm, _f in (("index", _deq_index), ("__getitem__", _deq_getitem), ("append", _deq_append), ("__delitem__", _deq_delitem),
                ("__len__", lambda interp, dq: wrap(dq.fields["n"]))):
    h5model.OBJ_METHODS[("Deq", _nm)] = _f
h5model.OBJ_METHODS[("Masks", "__getitem__")] = lambda interp, m, k: SOpaque(MASK(to_z3(k)))
h5model.OBJ_METHODS[("Masks", "__len__")] = lambda interp, m: m.fields["n"]


class GetContour(Contract):
    """get_contour(mask): a function of the mask (its tracing property is exercised by the bounded
    layer); a mask without a contour raises NoValidContourFoundError"""
    name = "get_contour"
    trusted = True

    def __call__(self, interp, mask):
        if interp.ctx.decide(interp.ctx.bool("mask_has_no_contour", inp=True)):
            from dclab.features.contour import NoValidContourFoundError
            raise PyRaise(NoValidContourFoundError, ("No contour found!",))
        return SOpaque(CONT(to_z3(mask)))


class LazyContourGetitem(Contract):
    """LazyContourList.__getitem__(idx) for an integer index -- representation invariant: the
    two deques have the same length and entry k of `contours` is the contour of mask
    `indices[k]`.  Under the invariant the call returns the contour of mask idx and
    re-establishes the invariant, for a cache of any length, unbounded or at its limit."""
    path = FEAT + "contour.py"
    module = "dclab.features.contour"
    qualname = "LazyContourList.__getitem__"
    classes = {"LazyContourList": (FEAT + "contour.py", "LazyContourList")}
    class_modules = {"LazyContourList": "dclab.features.contour"}
    params = ("self", "idx")

    def __init__(self, bounded):
        self.bounded = bounded
        self.name = f"LazyContourList.__getitem__[{'cache with a limit' if bounded else 'unlimited cache'}]"
        super().__init__()
        self.callees = {"get_contour": GetContour()}

    def inv(self, ind, cont):
        k = z3.Int("k!")
        a_i, a_c, n = ind.fields["a"], cont.fields["a"], ind.fields["n"]
        return z3.And(n == cont.fields["n"], n >= 0,
                      z3.ForAll([k], z3.Implies(z3.And(k >= 0, k < n), a_c[k] == CONT(MASK(a_i[k])))))

    def inputs(self, ctx):
        n = ctx.int("cached", lo=0, inp=True).e
        m = None
        if self.bounded:
            m = ctx.int("max_events", lo=1, inp=True).e
            ctx.assume(n <= m)
        self._ind = _deq(ctx, "indices", z3.IntSort(), n, m)
        self._cont = _deq(ctx, "contours", Elem, n, m)
        ctx.assume(self.inv(self._ind, self._cont))
        nev = ctx.int("n_events", lo=1)
        idx = ctx.int("idx", inp=True)
        ctx.assume(z3.And(idx.e >= 0, idx.e < nev.e))
        self_ = ctx.obj("LazyContourList", {"masks": ctx.obj("Masks", {"n": nev}, name="masks"), "indices": self._ind,
                                            "contours": self._cont}, name="self")
        return {"self": self_, "idx": idx}

    def exceptional(self, ctx, old, a, exc):
        # a mask without a contour: the error propagates and the cache stays consistent
        return z3.And(z3.BoolVal(exc.name == "NoValidContourFoundError"), z3.Bool("mask_has_no_contour"),
                      self.inv(self._ind, self._cont))

    def ensures(self, ctx, old, a, result):
        return [("the contour served for event idx is the contour of mask idx", to_z3(result) == CONT(MASK(a.idx.e))),
                ("afterwards every cached contour is still filed under the event it belongs to (representation invariant)",
                 self.inv(self._ind, self._cont))]


UNITS += [LazyContourGetitem(False), LazyContourGetitem(True)]
TRUSTED += [GetContour()]


def _replay_bright(unit_name, inp):
    from dclab.features.bright import get_bright
    from dclab.features.bright_bc import get_bright_bc
    from dclab.features.bright_perc import get_bright_perc
    rng = np.random.default_rng(int(inp.get("seed", 1)))
    for trial in range(6):
        n = int(inp.get("N", 0)) or rng.integers(1, 5)
        n = max(int(n), 2) if trial == 0 else int(n)
        img, bg, m = _rand_events(rng, n, float_bg=trial % 2 == 1)
        off = rng.uniform(-3, 3, n)
        try:
            if unit_name.startswith("get_bright["):
                avg, sd = get_bright(m, img, ret_data="avg,sd")
                want = [(np.mean(i[k]), np.std(i[k])) for i, k in zip(img, m)]
                got = list(zip(avg, sd))
            elif unit_name.startswith("get_bright_bc"):
                use = off if "bg_off" in unit_name else None
                avg, sd = get_bright_bc(m, img, bg, bg_off=use, ret_data="avg,sd")
                d = [np.array(i, dtype=int) - b for i, b in zip(img, bg)]
                want = [(np.mean(x[k]) - (use[j] if use is not None else 0), np.std(x[k])) for j, (x, k) in enumerate(zip(d, m))]
                got = list(zip(avg, sd))
            else:
                use = off if "bg_off" in unit_name else None
                p10, p90 = get_bright_perc(m, img, bg, bg_off=use)
                d = [np.array(i, dtype=int) - b for i, b in zip(img, bg)]
                want = [tuple(np.percentile(x[k], [10, 90]) - (use[j] if use is not None else 0))
                        for j, (x, k) in enumerate(zip(d, m))]
                got = list(zip(p10, p90))
        except Exception as ex:
            return {"failed": True, "detail": f"{unit_name} on {n} events raises {type(ex).__name__}: {ex}"}
        for j, (g, w) in enumerate(zip(got, want)):
            if not np.allclose(g, w, rtol=1e-9, atol=1e-9):
                return {"failed": True, "detail": f"{unit_name}: event {j} of {n} gives {tuple(float(x) for x in g)}, the definition "
                                                  f"gives {tuple(float(x) for x in w)} ({'float' if trial % 2 else 'integer'} background)"}
    return {"failed": False, "detail": "equals the definition on random events"}


def replay(unit_name, inp, obligation=""):
    import warnings
    with warnings.catch_warnings():
        warnings.simplefilter("ignore")
        if unit_name.startswith("get_bright"):
            return _replay_bright(unit_name, inp)
        if unit_name.startswith("correct_crosstalk"):
            from dclab.features.fl_crosstalk import correct_crosstalk
            rng = np.random.default_rng(2)
            ch = int(unit_name.split("channel ")[1].rstrip("]"))
            for trial in range(80):
                c = {f"ct{i}{j}": float(rng.uniform(0, 0.6)) for i in "123" for j in "123" if i != j}
                if trial < 36:
                    # sparse spill-over: a single non-zero element, each element in turn
                    keys = sorted(c)
                    c = {k: (0.3 if k == keys[trial % 6] else 0.0) for k in keys}
                t = rng.uniform(1, 100, 3)
                C = np.array([[1 if i == j else c[f"ct{i + 1}{j + 1}"] for j in range(3)] for i in range(3)])
                fl = t @ C
                got = correct_crosstalk(fl[0], fl[1], fl[2], ch, **c)
                if not np.isclose(got, t[ch - 1], rtol=1e-9):
                    return {"failed": True, "detail": f"true signals {t.tolist()}, spill-over {c}: corrected channel {ch} is "
                                                      f"{float(got)}, not {float(t[ch - 1])}"}
            return {"failed": False, "detail": "correction inverts the spill-over on random matrices"}
        if unit_name.startswith("get_inert_ratio_prnc"):
            from dclab.features.inert_ratio import get_inert_ratio_prnc, get_inert_ratio_raw, get_inert_ratio_cvx
            th = np.linspace(0, 2 * np.pi, 40, endpoint=False)
            # translation invariance for every contour dtype (bounded; floats are not modelled)
            for dt in (np.float64, np.float32, np.int32):
                base = np.c_[12 * np.cos(th) + 3 * np.sin(2 * th), 5 * np.sin(th)]
                vals = []
                for off in ((30, 20), (1024, 48), (4000, 300)):
                    cc = np.array(np.round(base * 8) / 8 + np.array(off), dtype=dt) if dt is not np.int32 \
                        else np.array(np.round(base) + np.array(off), dtype=dt)
                    vals.append((float(get_inert_ratio_raw(cc)), float(get_inert_ratio_cvx(cc)), float(get_inert_ratio_prnc(cc))))
                for v in vals[1:]:
                    if not np.allclose(v, vals[0], rtol=1e-6):
                        return {"failed": True, "detail": f"inertia ratios of a {np.dtype(dt).name} contour depend on its position: "
                                                          f"{vals[0]} at (30, 20), {v} further out"}
            for dt in (np.float64, np.int32):
                cont = [np.array(np.c_[30 + 12 * np.cos(th) + 3 * np.sin(2 * th), 20 + 5 * np.sin(th)], dtype=dt)
                        for _ in range(2)]
                before = [c.copy() for c in cont]
                get_inert_ratio_prnc(cont)
                if any(not np.array_equal(a_, b_) for a_, b_ in zip(cont, before)):
                    return {"failed": True, "detail": f"get_inert_ratio_prnc modified the {np.dtype(dt).name} contour it was given"}
            return {"failed": False, "detail": "contours unchanged"}
        if unit_name.startswith("LazyContourList"):
            from dclab.features.contour import LazyContourList, get_contour
            rng = np.random.default_rng(int(inp.get("seed", 0)) + 5)
            masks = np.zeros((7, 30, 40), dtype=bool)
            yy, xx = np.mgrid[:30, :40]
            for ii in range(7):
                masks[ii] = ((xx - (8 + 4 * ii)) / (3 + ii * 0.5)) ** 2 + ((yy - (8 + 2 * ii)) / (2.5 + 0.3 * ii)) ** 2 <= 1
            masks[3] = False           # an event without a contour: reading it raises, the others are unaffected
            want = [get_contour(m) if m.any() else None for m in masks]
            for max_events in ((None, 3, 2, 1000) if "limit" in unit_name else (None, 0)):
                lazy = LazyContourList(masks, max_events=max_events) if max_events != 1000 else LazyContourList(masks)
                pattern = [0, 1, 2, 3, 1, 2, 3, 0, 4, 4, 5, 1, 5, 3, 0, 2] + [int(i) for i in rng.integers(0, 7, 40)]
                for step, i in enumerate(pattern):
                    try:
                        got = lazy[i]
                    except BaseException as ex:
                        if want[i] is None:
                            continue
                        return {"failed": True, "detail": f"LazyContourList(max_events={max_events}): after the accesses "
                                                          f"{pattern[:step]} reading event {i} raises {type(ex).__name__}"}
                    if want[i] is None:
                        return {"failed": True, "detail": f"LazyContourList(max_events={max_events}): after the accesses "
                                                          f"{pattern[:step]} the empty mask {i} is served a contour"}
                    if got.shape != want[i].shape or not np.array_equal(got, want[i]):
                        return {"failed": True, "detail": f"LazyContourList(max_events={max_events}): after the accesses "
                                                          f"{pattern[:step]} the contour served for event {i} is not the contour of mask {i}"}
            return {"failed": False, "detail": "every access pattern serves the contour of the requested mask"}
        if unit_name.startswith("get_volume"):
            from dclab.features.volume import get_volume
            th = np.linspace(0, 2 * np.pi, 720, endpoint=False)
            pix = 0.34
            # an asymmetric contour given clockwise: fixing the orientation gives the volume of the same contour
            # given counter-clockwise (the reversed point list)
            poly = np.array([[40, 30], [48, 31], [55, 36], [52, 44], [44, 45], [41, 38]], dtype=float)
            cxy = (poly[:, 0].mean(), poly[:, 1].mean())
            v_ccw = get_volume(poly, cxy[0] * pix, cxy[1] * pix, pix, fix_orientation=True)
            v_cw = get_volume(poly[::-1].copy(), cxy[0] * pix, cxy[1] * pix, pix, fix_orientation=True)
            if not (v_ccw > 0 and np.isclose(v_ccw, v_cw, rtol=1e-9)):
                return {"failed": True, "detail": f"asymmetric hexagon: volume {float(v_ccw)} when given in one direction, "
                                                  f"{float(v_cw)} in the other, although the orientation is fixed"}
            refs = {}
            for orient in (1, -1):
                refs[orient] = get_volume(np.c_[10 * np.cos(orient * th) + 50, 6 * np.sin(orient * th) + 30], 50 * pix, 30 * pix,
                                          pix, fix_orientation=True)
            if not (refs[1] > 0 and refs[-1] > 0 and np.isclose(refs[1], refs[-1], rtol=1e-3)):
                return {"failed": True, "detail": f"the same ellipse traversed in the two directions gives volumes {float(refs[1])} "
                                                  f"and {float(refs[-1])}"}
            for shift in (10.0, 70.0, 150.3):
                for orient in (1, -1):
                    cx, cy = 10 * np.cos(orient * th), 6 * np.sin(orient * th)
                    cont = np.c_[cx + 50 + shift, cy + 30]
                    v = get_volume(cont, (50 + shift) * pix, 30 * pix, pix, fix_orientation=True)
                    ref = refs[orient]
                    if not np.isclose(v, ref, rtol=1e-9) or v <= 0:
                        return {"failed": True, "detail": f"ellipse shifted by {shift} px along the channel, orientation {orient}: "
                                                          f"volume {float(v)} vs. {float(ref)} for the unshifted contour"}
            return {"failed": False, "detail": "volume is translation invariant and positive for both orientations"}
    return {"failed": None, "detail": "no replay for " + unit_name}


def bounded_inputs(unit_name, rng):
    for s in range(4):
        yield {"seed": s}


def extra_checks(run):
    """bounded layer that runs on every check: clauses that concern floating-point behaviour or
    library code and have no contract (translation invariance of the inertia ratios for every
    contour dtype, volume orientation / translation, brightness on float backgrounds)"""
    import json as _json
    from pyvc.run import HERE
    for unit_name, what in (("get_inert_ratio_prnc[bounded]", "translation invariance and input frame of the inertia ratios "
                             "(float64 / float32 / int32 contours)"),
                            ("get_volume[bounded]", "volume: positive for both orientations, translation invariant"),
                            ("get_bright_bc[lists of events, with bg_off]", "brightness statistics on random events")):
        out = replay(unit_name, {"seed": run.seed})
        run.extra.setdefault("bounded_standins", []).append(
            {"function": unit_name.split("[")[0], "tool": "native replay against the definition", "cases": 1, "bound": what})
        if out.get("failed"):
            fn = HERE / "replays" / ("C18-bounded-" + unit_name.split("[")[0] + ".json")
            fn.parent.mkdir(exist_ok=True)
            fn.write_text(_json.dumps({"property": "C18", "obligation": what, "replay": out}, indent=1))
            print("  " + out["detail"][:300])
            run.violations.append(f"VIOLATION property=C18 replay={fn.relative_to(HERE)}")
