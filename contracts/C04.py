"""C04 — a hierarchy child is exactly the filtered view of its parent.

S(level) = increasing enumeration of the indices selected by the parent's filter
(np.where(filter.all)[0]); child index c corresponds to parent index S[c]."""
import numpy as np
import z3

from pyvc import h5model, npmodel, models   # noqa: F401
from pyvc.contract import Contract
from pyvc.engine import LoopSpec, NS
from pyvc.models import where_idx
from pyvc.sym import SArr, SObj, SInt, SOpaque, And, Or, Not, Implies, Z, to_z3, wrap

MAPPER = "dclab/rtdc_dataset/fmt_hierarchy/mapper.py"
MMOD = "dclab.rtdc_dataset.fmt_hierarchy.mapper"
HIEV = "dclab/rtdc_dataset/fmt_hierarchy/events.py"
HIMOD = "dclab.rtdc_dataset.fmt_hierarchy.events"


def mk_chain(ctx, depth):
    """root <- child_1 <- ... <- child_depth; returns (youngest child, list of filter arrays
    from the youngest child's parent up to the root)"""
    root_n = ctx.int("N_root", lo=0, inp=True)
    filt = ctx.arr("filter_root", "bool", n=root_n.e, inp=True)
    node = ctx.obj("DS", {"format": "hdf5", "filter": ctx.obj("Filter", {"all": filt}), "_N": root_n}, name="root")
    filters = [filt]
    for d in range(1, depth + 1):
        child = ctx.obj("Hier", {"format": "hierarchy", "hparent": node}, name=f"child{d}")
        if d < depth:
            # this child is itself a parent: its filter selects among its own events
            n_d = where_idx(_FakeInterp(ctx), filters[-1]).n
            f_d = ctx.arr(f"filter_child{d}", "bool", n=n_d, inp=True)
            child.fields["filter"] = ctx.obj("Filter", {"all": f_d})
            filters.append(f_d)
        node = child
    return node, list(reversed(filters))     # filters[0] belongs to the youngest child's parent


class _FakeInterp:
    def __init__(self, ctx):
        self.ctx = ctx

    def heap_write(self, o):
        pass


def S_of(ctx, filt):
    return where_idx(_FakeInterp(ctx), filt)


def compose_up(ctx, filters, term):
    """root index of the child index `term` through the chain of filters"""
    for f in filters:
        term = S_of(ctx, f).sel(term)
    return term


class Child2Parent(Contract):
    path = MAPPER
    module = MMOD
    qualname = "map_indices_child2parent"
    params = ("child", "child_indices")

    def __init__(self, kind):
        self.kind = kind
        self.name = f"map_indices_child2parent[{kind}]"
        super().__init__()

    def inputs(self, ctx):
        child, filters = mk_chain(ctx, 1)
        self._filt = filters[0]
        S = S_of(ctx, self._filt)
        if self.kind == "array":
            ci = ctx.arr("child_indices", "int", inp=True)
            k = z3.Int("k!rq")
            ctx.assume(z3.ForAll([k], z3.Implies(z3.And(k >= 0, k < ci.n),
                                                 z3.And(ci.sel(k) >= -S.n, ci.sel(k) < S.n))))
        else:
            ci = ctx.int("child_index", inp=True)
            ctx.assume(z3.And(ci.e >= -S.n, ci.e < S.n))
        self._ci = ci
        return {"child": child, "child_indices": ci}

    def ensures(self, ctx, old, a, result):
        S = S_of(ctx, self._filt)
        norm = lambda c: z3.If(c < 0, c + S.n, c)   # noqa
        if self.kind == "array":
            if not isinstance(result, SArr):
                return [("returns an array", z3.BoolVal(False))]
            k = z3.Int("k!p")
            return [("one parent index per child index", result.n == self._ci.n),
                    ("result[k] is the index in the parent of the child's event child_indices[k] "
                     "(negative indices count from the end)",
                     z3.ForAll([k], z3.Implies(z3.And(k >= 0, k < result.n),
                                               result.sel(k) == S.sel(norm(self._ci.sel(k))))))]
        return [("the parent index of the child's event (negative indices count from the end)",
                 to_z3(result) == S.sel(norm(self._ci.e)))]


class Child2Root(Contract):
    path = MAPPER
    module = MMOD
    qualname = "map_indices_child2root"
    inline = {"map_indices_child2parent"}
    params = ("child", "child_indices")

    def __init__(self, depth):
        self.depth = depth
        self.name = f"map_indices_child2root[depth {depth}]"
        super().__init__()

    def inputs(self, ctx):
        child, filters = mk_chain(ctx, self.depth)
        self._filters = filters
        n_child = S_of(ctx, filters[0]).n
        ci = ctx.arr("child_indices", "int", inp=True)
        k = z3.Int("k!rq")
        ctx.assume(z3.ForAll([k], z3.Implies(z3.And(k >= 0, k < ci.n),
                                             z3.And(ci.sel(k) >= 0, ci.sel(k) < n_child))))
        self._ci = ci
        return {"child": child, "child_indices": ci}

    def ensures(self, ctx, old, a, result):
        if not isinstance(result, SArr):
            return [("returns an array", z3.BoolVal(False))]
        k = z3.Int("k!p")
        return [("one root index per child index", result.n == self._ci.n),
                ("result[k] is the composition of the level maps applied to child_indices[k]",
                 z3.ForAll([k], z3.Implies(z3.And(k >= 0, k < result.n),
                                           result.sel(k) == compose_up(ctx, self._filters, self._ci.sel(k)))))]


class Parent2Child(Contract):
    path = MAPPER
    module = MMOD
    name = "map_indices_parent2child"
    qualname = "map_indices_parent2child"
    params = ("child", "parent_indices")

    def inputs(self, ctx):
        child, filters = mk_chain(ctx, 1)
        self._filt = filters[0]
        pi = ctx.arr("parent_indices", "int", inp=True)
        self._pi = pi
        return {"child": child, "parent_indices": pi}

    def ensures(self, ctx, old, a, result):
        if not isinstance(result, SArr):
            return [("returns an array", z3.BoolVal(False))]
        S = S_of(ctx, self._filt)
        k, j, c = z3.Int("k!p"), z3.Int("j!p"), z3.Int("c!p")
        member = lambda x: z3.Exists([j], z3.And(j >= 0, j < self._pi.n, self._pi.sel(j) == x))   # noqa
        return [("child indices are increasing and within the child",
                 z3.And(z3.ForAll([k, j], z3.Implies(z3.And(k >= 0, k < j, j < result.n),
                                                     result.sel(k) < result.sel(j))),
                        z3.ForAll([k], z3.Implies(z3.And(k >= 0, k < result.n),
                                                  z3.And(result.sel(k) >= 0, result.sel(k) < S.n))))),
                ("every returned child event maps to one of the given parent indices",
                 z3.ForAll([k], z3.Implies(z3.And(k >= 0, k < result.n), member(S.sel(result.sel(k)))))),
                ("every child event that maps to a given parent index is returned",
                 z3.ForAll([c], z3.Implies(z3.And(c >= 0, c < S.n, member(S.sel(c))),
                                           z3.Exists([k], z3.And(k >= 0, k < result.n, result.sel(k) == c)))))]


UNITS = [Child2Parent("array"), Child2Parent("int"), Child2Root(1), Child2Root(2), Child2Root(3), Parent2Child()]
TRUSTED = []
TRUSTED_BASE = ["numpy rank/select axioms: np.where (N-WHERE), fancy indexing (N-FANCY), np.isin (N-ISIN)",
                "event payloads of non-scalar features are opaque values"]
ASSUMPTIONS = ["hierarchy chains are verified for depths 1..3 (concrete chain length, symbolic data); deeper chains follow "
               "by the same composition (induction on the depth, stated)"]


class Root2Child(Contract):
    path = MAPPER
    module = MMOD
    qualname = "map_indices_root2child"
    inline = {"map_indices_parent2child"}
    params = ("child", "root_indices")

    def __init__(self, depth):
        self.depth = depth
        self.name = f"map_indices_root2child[depth {depth}]"
        super().__init__()

    def inputs(self, ctx):
        child, filters = mk_chain(ctx, self.depth)
        self._filters = filters
        ri = ctx.arr("root_indices", "int", inp=True)
        self._ri = ri
        return {"child": child, "root_indices": ri}

    def ensures(self, ctx, old, a, result):
        if not isinstance(result, SArr):
            return [("returns an array", z3.BoolVal(False))]
        n_child = S_of(ctx, self._filters[0]).n
        k, j, c = z3.Int("k!p"), z3.Int("j!p"), z3.Int("c!p")
        member = lambda x: z3.Exists([j], z3.And(j >= 0, j < self._ri.n, self._ri.sel(j) == x))   # noqa
        root = lambda t: compose_up(ctx, self._filters, t)   # noqa
        return [("child indices are increasing and within the child",
                 z3.And(z3.ForAll([k, j], z3.Implies(z3.And(k >= 0, k < j, j < result.n),
                                                     result.sel(k) < result.sel(j))),
                        z3.ForAll([k], z3.Implies(z3.And(k >= 0, k < result.n),
                                                  z3.And(result.sel(k) >= 0, result.sel(k) < n_child))))),
                ("every returned child event is one of the given root events",
                 z3.ForAll([k], z3.Implies(z3.And(k >= 0, k < result.n), member(root(result.sel(k)))))),
                ("every child event whose root event is given is returned",
                 z3.ForAll([c], z3.Implies(z3.And(c >= 0, c < n_child, member(root(c))),
                                           z3.Exists([k], z3.And(k >= 0, k < result.n, result.sel(k) == c)))))]


UNITS += [Root2Child(1), Root2Child(2)]


# ---------------------------------------------------------------- child feature objects
class ParentFeat(Contract):
    """hparent[feat] / hparent["trace"][name]: the parent's feature object"""
    trusted = True

    def __init__(self, name):
        self.name = name
        super().__init__()

    def __call__(self, interp, parent, key):
        return parent.fields["_feats"][key]


class ChildFeatureGetitem(Contract):
    """child[feat][idx] == parent[feat][S[idx]] for image-like, contour and trace
    features, for an integer (also negative) index and for an index array."""
    path = HIEV
    module = HIMOD
    inline = {"map_indices_child2parent"}
    params = ("self", "idx")

    def __init__(self, cls, kind):
        self.cls, self.kind = cls, kind
        self.qualname = f"{cls}.__getitem__"
        self.name = f"{cls}.__getitem__[{kind}]"
        self.classes = {cls: (HIEV, cls), "ChildBase": (HIEV, "ChildBase")}
        self.class_modules = {cls: HIMOD, "ChildBase": HIMOD}
        super().__init__()
        self.callees = {"DS.__getitem__": ParentFeat("DS.__getitem__")}

    def inputs(self, ctx):
        child, filters = mk_chain(ctx, 1)
        self._filt = filters[0]
        parent = child.fields["hparent"]
        N = to_z3(parent.fields["_N"])
        data = ctx.arr("parent_feature", "elem", n=N, inp=True)
        data.item_shape = ("h", "w")
        feats = {"image": data, "contour": data}
        if self.cls == "ChildTraceItem":
            feats = {"trace": {"fl1_raw": data}}
        parent.fields["_feats"] = feats
        S = S_of(ctx, self._filt)
        if self.kind == "array":
            idx = ctx.arr("idx", "int", inp=True)
            k = z3.Int("k!rq")
            ctx.assume(z3.ForAll([k], z3.Implies(z3.And(k >= 0, k < idx.n),
                                                 z3.And(idx.sel(k) >= 0, idx.sel(k) < S.n))))
        else:
            idx = ctx.int("idx", inp=True)
            ctx.assume(z3.And(idx.e >= -S.n, idx.e < S.n))
        self._g = NS(dict(data=data, idx=idx))
        fields = {"child": child}
        if self.cls == "ChildNDArray":
            fields["feat"] = "image"
        if self.cls == "ChildTraceItem":
            fields["flname"] = "fl1_raw"
        return {"self": ctx.obj(self.cls, fields, name="self"), "idx": idx}

    def ensures(self, ctx, old, a, result):
        g = self._g
        S = S_of(ctx, self._filt)
        if self.kind == "array":
            if not isinstance(result, SArr):
                return [("returns a stack of events", z3.BoolVal(False))]
            k = z3.Int("k!p")
            return [("one event per index", result.n == g.idx.n),
                    ("event k is the parent's event S[idx[k]]",
                     z3.ForAll([k], z3.Implies(z3.And(k >= 0, k < result.n),
                                               result.sel(k) == g.data.sel(S.sel(g.idx.sel(k))))))]
        if not isinstance(result, SOpaque):
            return [("returns one event", z3.BoolVal(False))]
        c = z3.If(g.idx.e < 0, g.idx.e + S.n, g.idx.e)
        return [("the parent's event S[idx] (negative idx from the end)", result.e == g.data.sel(S.sel(c)))]


for _cls in ("ChildNDArray", "ChildContour", "ChildTraceItem"):
    for _kind in ("int", "array"):
        UNITS.append(ChildFeatureGetitem(_cls, _kind))
TRUSTED += [ParentFeat("DS.__getitem__")]


# ---------------------------------------------------------------- manual exclusions (HierarchyFilter)
HFILT = "dclab/rtdc_dataset/fmt_hierarchy/hfilter.py"
HFMOD = "dclab.rtdc_dataset.fmt_hierarchy.hfilter"
root_of = z3.Function("root_of", z3.IntSort(), z3.IntSort())     # child index -> root index (ghost)


class C2RCallee(Contract):
    """map_indices_child2root (verified above): result[k] == root_of(child_indices[k])"""
    name = "map_indices_child2root"

    def __call__(self, interp, child=None, child_indices=None):
        ci = npmodel.as_arr(interp, child_indices)
        return models.arr_new(interp, ci.n, lambda k: root_of(ci.sel(k)), "int")


class R2CCallee(Contract):
    """map_indices_root2child (verified above): increasing child indices c with
    root_of(c) among the given root indices"""
    name = "map_indices_root2child"

    def __call__(self, interp, child=None, root_indices=None):
        ctx = interp.ctx
        ri = npmodel.as_arr(interp, root_indices)
        n_child = to_z3(child.fields["_n"])
        C = ctx.arr("r2c", "int")
        k, j, c = z3.Int("k!r2"), z3.Int("j!r2"), z3.Int("c!r2")
        member = lambda x: z3.Exists([j], z3.And(j >= 0, j < ri.n, ri.sel(j) == x))   # noqa
        ctx.assume(z3.ForAll([k, j], z3.Implies(z3.And(k >= 0, k < j, j < C.n), C.sel(k) < C.sel(j))))
        ctx.assume(z3.ForAll([k], z3.Implies(z3.And(k >= 0, k < C.n),
                                             z3.And(C.sel(k) >= 0, C.sel(k) < n_child, member(root_of(C.sel(k)))))))
        ctx.assume(z3.ForAll([c], z3.Implies(z3.And(c >= 0, c < n_child, member(root_of(c))),
                                             z3.Exists([k], z3.And(k >= 0, k < C.n, C.sel(k) == c)))))
        return C


class ParentChanged(Contract):
    name = "HierarchyFilter.parent_changed"
    is_property = True
    trusted = True

    def __call__(self, interp, flt):
        return flt.fields["_parent_changed"]


class RetrieveManual(Contract):
    """retrieve_manual_indices (parent unchanged, some event excluded): afterwards
    the remembered root ids are exactly the root events of the events currently
    excluded in the child plus the remembered ids that are currently hidden (not
    visible in the child) -- excluded events stay excluded while hidden."""
    path = HFILT
    module = HFMOD
    name = "HierarchyFilter.retrieve_manual_indices"
    qualname = "HierarchyFilter.retrieve_manual_indices"
    classes = {"HierarchyFilter": (HFILT, "HierarchyFilter")}
    class_modules = {"HierarchyFilter": HFMOD}
    params = ("self", "rtdc_ds")

    def __init__(self):
        super().__init__()
        self.callees = {"map_indices_child2root": C2RCallee(), "map_indices_root2child": R2CCallee(),
                        "HierarchyFilter.parent_changed": ParentChanged()}
        self.asserts = {
            "pbool = map_indices_child2root(child=rtdc_ds, child_indices=np.where(~self.manual)[0]).tolist()":
                lambda ctx, v: self.cut(ctx, v, "pbool", lambda x: self.excluded(x),
                                        "pbool holds exactly the root events of the events excluded now"),
            "pvis_p = map_indices_child2root(child=rtdc_ds, child_indices=pvis_c).tolist()":
                lambda ctx, v: self.cut(ctx, v, "pvis_p",
                                        lambda x: z3.And(z3.Or(self.excluded(x), self.in_old(x)), self.visible(x)),
                                        "pvis_p holds exactly the visible ones among the excluded and the remembered ids"),
            "phid = list(set(pall) - set(pvis_p))":
                lambda ctx, v: self.cut(ctx, v, "phid",
                                        lambda x: z3.And(self.in_old(x), z3.Not(self.visible(x))),
                                        "phid holds exactly the remembered ids that are hidden now"),
            "all_idx = list(set(pbool + phid))":
                lambda ctx, v: self.cut(ctx, v, "all_idx",
                                        lambda x: z3.Or(self.excluded(x), z3.And(self.in_old(x), z3.Not(self.visible(x)))),
                                        "all_idx holds exactly the ids excluded now and the remembered hidden ids"),
        }
        self._pending = []

    def cut(self, ctx, v, name, pred, what):
        """ghost cut: prove that the list `name` holds exactly the ids with `pred`,
        then forget how it was built (fresh list, arbitrary order and length, with
        exactly that membership) -- keeps the later obligations small"""
        from pyvc.models import SSet
        lst = getattr(v, name)
        goal = self.set_is(lst, pred)
        fresh = ctx.arr(name + "_abs", "int")
        fresh.is_list = True
        fresh.from_set = SSet(pred)
        j, x = z3.Int("j!c"), z3.Int("x!c")
        post_facts = z3.And(
            z3.ForAll([j], z3.Implies(z3.And(j >= 0, j < fresh.n), pred(fresh.sel(j)))),
            z3.ForAll([x], z3.Implies(pred(x), z3.Exists([j], z3.And(j >= 0, j < fresh.n, fresh.sel(j) == x)))))
        self._pending.append((v, name, fresh, post_facts))
        return [(what, goal)]

    def set_is(self, lst, pred):
        from pyvc.models import member_pred
        x = z3.Int("x!a")
        return z3.ForAll([x], member_pred(lst)(x) == pred(x))

    def visible(self, t):
        k = z3.Int("k!v")
        return z3.Exists([k], z3.And(k >= 0, k < self._g.n.e, root_of(k) == t))

    def excluded(self, t):
        k = z3.Int("k!x")
        return z3.Exists([k], z3.And(k >= 0, k < self._g.n.e, z3.Not(self._g.manual.sel(k)), root_of(k) == t))

    def in_old(self, t):
        j = z3.Int("j!o")
        return z3.Exists([j], z3.And(j >= 0, j < self._g.pold.n, self._g.pold.sel(j) == t))

    def inputs(self, ctx):
        n = ctx.int("n_child", lo=0, inp=True)
        manual = ctx.arr("manual", "bool", n=n.e, inp=True)
        pold = ctx.arr("man_root_ids", "int", inp=True)
        pold.is_list = True
        child = ctx.obj("Hier", {"_n": n}, name="rtdc_ds")
        changed = ctx.bool("parent_changed", inp=True)
        self._g = NS(dict(n=n, manual=manual, pold=SArr(pold.n, pold.a, "int"), changed=changed))
        return {"self": ctx.obj("HierarchyFilter", {"manual": manual, "_man_root_ids": pold,
                                                    "_parent_changed": changed}, name="self"),
                "rtdc_ds": child}

    def requires(self, ctx, a):
        g = self._g
        c1, c2 = z3.Int("c1!rq"), z3.Int("c2!rq")
        return [("root_of is strictly increasing on the child's events (composition of increasing enumerations)",
                 z3.ForAll([c1, c2], z3.Implies(z3.And(c1 >= 0, c1 < c2, c2 < g.n.e), root_of(c1) < root_of(c2))))]

    def ensures(self, ctx, old, a, result):
        g = self._g
        res = a.self.fields["_man_root_ids"]
        if not isinstance(res, SArr):
            return [("the remembered ids are a list", z3.BoolVal(False))]
        x, k, j = z3.Int("x!p"), z3.Int("k!p"), z3.Int("j!p")
        visible = lambda t: z3.Exists([k], z3.And(k >= 0, k < g.n.e, root_of(k) == t))   # noqa
        excluded = lambda t: z3.Exists([k], z3.And(k >= 0, k < g.n.e, z3.Not(g.manual.sel(k)), root_of(k) == t))   # noqa
        in_old = lambda t: z3.Exists([j], z3.And(j >= 0, j < g.pold.n, g.pold.sel(j) == t))   # noqa
        from pyvc.models import member_pred
        in_res = member_pred(res)      # membership in the returned list (P-SET: list(S)/sorted(S) enumerate S)
        allman = z3.ForAll([k], z3.Implies(z3.And(k >= 0, k < g.n.e), g.manual.sel(k)))
        # (also when no event is excluded at the moment: an exclusion that was taken back must not be remembered)
        active = z3.Not(to_z3(g.changed, "bool"))
        return [("every remembered id is excluded now, or was remembered and is hidden now",
                 z3.Implies(active, z3.ForAll([x], z3.Implies(in_res(x), z3.Or(excluded(x),
                                                                              z3.And(in_old(x), z3.Not(visible(x)))))))),
                ("the root event of every event excluded now is remembered",
                 z3.Implies(active, z3.ForAll([x], z3.Implies(excluded(x), in_res(x))))),
                ("every remembered id that is hidden now stays remembered",
                 z3.Implies(active, z3.ForAll([x], z3.Implies(z3.And(in_old(x), z3.Not(visible(x))), in_res(x))))),
                ("parent changed: the remembered ids are kept as they are",
                 z3.Implies(z3.Not(active), z3.ForAll([x], in_res(x) == in_old(x)))),
                ("the method returns the remembered ids", z3.BoolVal(result is res))]


UNITS += [RetrieveManual()]
TRUSTED += [ParentChanged()]


parent_of = z3.Function("parent_of", z3.IntSort(), z3.IntSort())     # child index -> parent index (ghost)


class C2PCallee(Contract):
    """map_indices_child2parent: indices in the *parent* (not the root)"""
    name = "map_indices_child2parent"

    def __call__(self, interp, child=None, child_indices=None):
        ci = npmodel.as_arr(interp, child_indices)
        return models.arr_new(interp, ci.n, lambda k: parent_of(ci.sel(k)), "int")


RetrieveManual_callees_extra = {"map_indices_child2parent": C2PCallee()}
for _u in UNITS:
    if isinstance(_u, RetrieveManual):
        _u.callees.update(RetrieveManual_callees_extra)


class ApplyManual(Contract):
    """apply_manual_indices(rtdc_ds, ids) (parent unchanged): exactly the child
    events whose root event is in ids are excluded in addition, and ids are
    remembered; with a changed parent HierarchyFilterError is raised."""
    path = HFILT
    module = HFMOD
    name = "HierarchyFilter.apply_manual_indices"
    qualname = "HierarchyFilter.apply_manual_indices"
    classes = {"HierarchyFilter": (HFILT, "HierarchyFilter")}
    class_modules = {"HierarchyFilter": HFMOD}
    params = ("self", "rtdc_ds", "manual_indices")

    def __init__(self):
        super().__init__()
        self.callees = {"map_indices_root2child": R2CCallee(), "map_indices_child2root": C2RCallee(),
                        "map_indices_child2parent": C2PCallee(),
                        "HierarchyFilter.parent_changed": ParentChanged()}

    def inputs(self, ctx):
        n = ctx.int("n_child", lo=0, inp=True)
        manual = ctx.arr("manual", "bool", n=n.e, inp=True)
        ids = ctx.arr("manual_indices", "int", inp=True)
        ids.is_list = True
        child = ctx.obj("Hier", {"_n": n}, name="rtdc_ds")
        changed = ctx.bool("parent_changed", inp=True)
        self._g = NS(dict(n=n, m0=SArr(manual.n, manual.a, "bool"), ids=SArr(ids.n, ids.a, "int"), changed=changed))
        return {"self": ctx.obj("HierarchyFilter", {"manual": manual, "_man_root_ids": [],
                                                    "_parent_changed": changed}, name="self"),
                "rtdc_ds": child, "manual_indices": ids}

    def exceptional(self, ctx, old, a, exc):
        if exc.name == "HierarchyFilterError":
            return to_z3(self._g.changed, "bool")
        return None

    def ensures(self, ctx, old, a, result):
        g = self._g
        m1 = a.self.fields["manual"]
        res = a.self.fields["_man_root_ids"]
        c, j = z3.Int("c!p"), z3.Int("j!p")
        in_ids = lambda t: z3.Exists([j], z3.And(j >= 0, j < g.ids.n, g.ids.sel(j) == t))   # noqa
        posts = [("the parent has not changed", z3.Not(to_z3(g.changed, "bool"))),
                 ("a child event is excluded afterwards iff it was excluded or its root event is in ids",
                  z3.ForAll([c], z3.Implies(z3.And(c >= 0, c < g.n.e),
                                            m1.sel(c) == z3.And(g.m0.sel(c), z3.Not(in_ids(root_of(c))))))),
                 ("the manual filter keeps its length", m1.n == g.n.e)]
        if isinstance(res, SArr):
            posts.append(("ids are remembered", z3.And(res.n == g.ids.n,
                                                       z3.ForAll([j], z3.Implies(z3.And(j >= 0, j < res.n),
                                                                                 res.sel(j) == g.ids.sel(j))))))
        else:
            posts.append(("ids are remembered as a list", z3.BoolVal(False)))
        return posts


UNITS += [ApplyManual()]


# ---------------------------------------------------------------- RTDC_Hierarchy.apply_filter
HBASE = "dclab/rtdc_dataset/fmt_hierarchy/base.py"
HBMOD = "dclab.rtdc_dataset.fmt_hierarchy.base"


class LogCall(Contract):
    trusted = True

    def __init__(self, name, ret=None):
        self.name = name
        self._ret = ret
        super().__init__()

    def __call__(self, interp, obj, *a, **k):
        interp.cur_frame.unit._log.append(self.name)
        r = self._ret
        return r(interp, obj) if callable(r) else r


class HierApplyFilter(Contract):
    """RTDC_Hierarchy.apply_filter(): (1) the manual exclusions are retrieved (as
    root ids) *before* the parent is refreshed, (2) every cached feature object of
    the child is dropped unconditionally -- afterwards _events holds only objects
    created in this call: a fresh index 1..len(child) and new lazy children for
    image/image_bg/mask/contour/trace, (3) the cached length is reset, (4) the
    parent-change check (which re-applies the manual exclusions) runs after the
    refresh and before the filters of the child are recomputed."""
    path = HBASE
    module = HBMOD
    name = "RTDC_Hierarchy.apply_filter"
    qualname = "RTDC_Hierarchy.apply_filter"
    classes = {"RTDC_Hierarchy": (HBASE, "RTDC_Hierarchy")}
    class_modules = {"RTDC_Hierarchy": HBMOD}
    params = ("self",)
    inline = {"RTDC_Hierarchy." + nm for nm in ("basins", "features", "features_ancillary", "features_basin", "features_innate",
                                                "features_loaded", "features_local", "features_scalar")}

    def __init__(self):
        super().__init__()
        mk = lambda nm: (lambda interp, *a, **k: interp.ctx.obj(nm, {"args": a}))   # noqa

        class Ctor(Contract):
            trusted = True

            def __init__(s, nm):
                s.name = nm
                Contract.__init__(s)

            def __call__(s, interp, *a, **k):
                if s.name == "ChildTrace":
                    class NewDict(dict):
                        _new = True
                    return NewDict()
                return interp.ctx.obj(s.name, {"args": a, "_new": True})
        self.callees = {
            "HFilter.retrieve_manual_indices": LogCall("filter.retrieve_manual_indices"),
            "DS.apply_filter": LogCall("hparent.apply_filter"),
            "DS.__contains__": LogCall("hparent.__contains__", ret=lambda i, o: True),
            "DS.__getitem__": LogCall("hparent.__getitem__", ret=lambda i, o: {"fl1_raw": 1, "fl2_raw": 2}),
            "RTDC_Hierarchy.__len__": LogCall("len(self)", ret=lambda i, o: o.fields["_n"]),
            "RTDC_Hierarchy._update_config": LogCall("_update_config"),
            "RTDC_Hierarchy._check_parent_filter": LogCall("_check_parent_filter"),
            "Super.apply_filter": LogCall("RTDCBase.apply_filter"),
            "ChildNDArray": Ctor("ChildNDArray"), "ChildContour": Ctor("ChildContour"),
            "ChildTrace": Ctor("ChildTrace"), "ChildTraceItem": Ctor("ChildTraceItem"),
        }

    def inputs(self, ctx):
        self._log = []
        n = ctx.int("n_child", lo=0, inp=True)
        stale = ctx.obj("ChildScalar", {"stale": True})
        stale2 = ctx.obj("ChildNDArray", {"stale": True})
        # (the feature lists of a child are those of its parent)
        parent = ctx.obj("DS", {"features": ["deform", "image", "emodulus", "userdef1"], "features_ancillary": ["emodulus"],
                                "features_innate": ["deform", "image"], "features_loaded": ["deform", "image"],
                                "features_local": ["deform", "image", "emodulus"], "features_basin": [],
                                "features_scalar": ["deform", "emodulus", "userdef1"], "basins": []}, name="hparent")
        # whether the parent changed is not for this function to look at: the cached objects go in any case
        flt = ctx.obj("HFilter", {"parent_changed": ctx.bool("parent_changed", inp=True), "is_new": False})
        self_ = ctx.obj("RTDC_Hierarchy", {"_ds_filter": flt, "filter": flt, "hparent": parent, "_length": Z(5),
                                           "_events": {"deform": stale, "image": stale2, "emodulus": stale,
                                                       "userdef1": stale},
                                           "_n": n}, name="self")
        self._g = NS(dict(n=n, stale=(stale, stale2)))
        return {"self": self_}

    def ensures(self, ctx, old, a, result):
        g = self._g
        ev = a.self.fields["_events"]
        log = self._log
        idx = ev.get("index")
        k = z3.Int("k!p")
        posts = [("no stale feature object survives the refresh",
                  z3.BoolVal(all(not (isinstance(v, SObj) and v.fields.get("stale")) for v in ev.values())
                             and set(ev) <= {"index", "image", "image_bg", "mask", "contour", "trace"})),
                 ("the cached length is reset", z3.BoolVal(a.self.fields["_length"] is None
                                                           or a.self.fields["_length"] is g.n)),
                 ("order: manual ids retrieved, then parent refreshed, then parent-change check, then own filters",
                  z3.BoolVal([x for x in log if x in ("filter.retrieve_manual_indices", "hparent.apply_filter",
                                                      "_check_parent_filter", "RTDCBase.apply_filter")]
                             == ["filter.retrieve_manual_indices", "hparent.apply_filter",
                                 "_check_parent_filter", "RTDCBase.apply_filter"])),
                 ("the configuration is updated from the parent", z3.BoolVal("_update_config" in log))]
        if isinstance(idx, SArr):
            posts.append(("the cached index is handed out read-only", z3.BoolVal(idx.writeable is False)))
            posts.append(("index enumerates 1..len(child)",
                          z3.And(idx.n == g.n.e, z3.ForAll([k], z3.Implies(z3.And(k >= 0, k < idx.n),
                                                                           idx.sel(k) == k + 1)))))
        else:
            posts.append(("index is a fresh enumeration", z3.BoolVal(False)))
        return posts


UNITS += [HierApplyFilter()]


class CheckParentFilter(Contract):
    """RTDC_Hierarchy._check_parent_filter(): when the parent changed, the manual exclusions (root ids) are taken
    from the old filter, a new HierarchyFilter is created and *always* receives them -- also when the child is
    empty at the moment or nothing is excluded visibly (the ids must survive until the events come back);
    when the parent did not change nothing happens."""
    path = HBASE
    module = HBMOD
    name = "RTDC_Hierarchy._check_parent_filter"
    qualname = "RTDC_Hierarchy._check_parent_filter"
    classes = {"RTDC_Hierarchy": (HBASE, "RTDC_Hierarchy")}
    class_modules = {"RTDC_Hierarchy": HBMOD}
    params = ("self",)

    def __init__(self):
        super().__init__()
        unit = self

        class Retrieve(Contract):
            name = "HFilter.retrieve_manual_indices"
            trusted = True

            def __call__(s, interp, flt, ds):
                unit._log.append(("retrieve", flt.fields["is_new"]))
                return unit._ids

        class Apply(Contract):
            name = "HFilter.apply_manual_indices"
            trusted = True

            def __call__(s, interp, flt, ds, ids):
                unit._log.append(("apply", flt.fields["is_new"], ids is unit._ids))
                return None

        class AssertFilter(Contract):
            """RTDCBase._assert_filter: creates the filter object if there is none"""
            name = "RTDC_Hierarchy._assert_filter"
            trusted = True

            def __call__(s, interp, ds):
                if ds.fields.get("_ds_filter") is None:
                    new = interp.ctx.obj("HFilter", {"parent_changed": False, "is_new": True})
                    interp.heap_write(ds)
                    ds.fields["_ds_filter"] = new
                    ds.fields["filter"] = new
                    unit._log.append(("new filter",))
                return None
        self.callees = {"HFilter.retrieve_manual_indices": Retrieve(), "HFilter.apply_manual_indices": Apply(),
                        "RTDC_Hierarchy._assert_filter": AssertFilter(),
                        "RTDC_Hierarchy.__len__": LogCall("len(self)", ret=lambda i, o: o.fields["_n"])}

    def inputs(self, ctx):
        self._log = []
        n = ctx.int("n_child", lo=0, inp=True)
        ids = ctx.arr("manual_root_ids", "int", inp=True)
        self._ids = ids
        self._changed = ctx.bool("parent_changed", inp=True)
        flt = ctx.obj("HFilter", {"parent_changed": self._changed, "is_new": False})
        self._flt = flt
        self_ = ctx.obj("RTDC_Hierarchy", {"_ds_filter": flt, "filter": flt, "hparent": ctx.obj("DS", {}, name="hparent"),
                                           "_n": n}, name="self")
        return {"self": self_}

    def ensures(self, ctx, old, a, result):
        log = [x for x in self._log if isinstance(x, tuple)]
        changed = [("retrieve", False), ("new filter",), ("apply", True, True)]
        return [("parent changed: ids taken from the old filter, a new filter created, the ids handed to the new filter",
                 z3.Implies(self._changed.e, z3.BoolVal(log == changed))),
                ("parent unchanged: the filter object stays and nothing is re-applied",
                 z3.Implies(z3.Not(self._changed.e), z3.BoolVal(log == [] and a.self.fields["_ds_filter"] is self._flt)))]


UNITS += [CheckParentFilter()]


# ---------------------------------------------------------------- replay on the real code
def replay(unit_name, inp, obligation=""):
    """differential of a real hierarchy against the specification: children are
    compared with numpy selections of the root data, then a history of filter
    edits / manual exclusions is played and excluded events must stay excluded"""
    import warnings
    import numpy as np
    import dclab
    seed = int(inp.get("seed", 1))
    depth = int(inp.get("depth", 2))
    n = int(inp.get("n", 9))
    rng = np.random.RandomState(seed)
    with warnings.catch_warnings():
        warnings.simplefilter("ignore")
        img = rng.randint(1, 200, size=(n, 4, 5)).astype(np.uint8)
        root = dclab.new_dataset({"deform": rng.uniform(0.01, 0.2, n), "area_um": rng.uniform(50, 150, n),
                                  "image": img})
        chain = [root]
        for d in range(depth):
            chain.append(dclab.new_dataset(chain[-1]))
        excluded_root_ids = set()

        def refresh():
            chain[-1].rejuvenate()

        def root_ids(level):
            ids = np.arange(n)
            for ds in chain[:level]:
                ids = ids[np.array(ds.filter.all, dtype=bool)]
            return ids

        def check(step):
            for lvl in range(1, depth + 1):
                ch = chain[lvl]
                ids = root_ids(lvl)
                if len(ch) != len(ids):
                    return f"{step}: level {lvl} has {len(ch)} events, parent selects {len(ids)}"
                if len(ids) and not np.allclose(ch["deform"][:], root["deform"][ids]):
                    return f"{step}: level {lvl} deform differs from the filtered root data"
                for k in ([0, len(ids) - 1, -1] if len(ids) else []):
                    if not np.array_equal(ch["image"][k], img[ids[k]]):
                        return f"{step}: level {lvl} image[{k}] is not the root event {ids[k]}"
                if len(ids) >= 2 and not np.array_equal(ch["image"][np.array([0, len(ids) - 1])],
                                                        img[ids[[0, len(ids) - 1]]]):
                    return f"{step}: level {lvl} image[[0,-1]] differs"
            # manual exclusions in the youngest child
            ids = root_ids(depth)
            man = np.array(chain[-1].filter.manual, dtype=bool)
            for pos, rid in enumerate(ids):
                if rid in excluded_root_ids and man[pos]:
                    return f"{step}: root event {rid} was manually excluded in the child but is selected again"
            return None
        refresh()
        bad = check("initial")
        ops = inp.get("ops") or [("filt", 0, [1]), ("man", [0, 2]), ("temp", 1), ("filt", 0, [1, 3]), ("filt", 0, []),
                                 ("temp", 2), ("filt", 1, [0]), ("filt", 0, [2]), ("filt", 1, []), ("filt", 0, []),
                                 # two assignments in a row: no filter and no setting changes in between
                                 ("temp", 3), ("temp", 4)]
        tmp_name = "pyvc_tmp"
        try:
            dclab.register_temporary_feature(tmp_name, is_scalar=True)
        except ValueError:
            pass
        for i, op in enumerate(ops):
            if bad:
                break
            if op[0] == "temp":
                vals = np.random.RandomState(op[1]).uniform(0, 1, n)
                dclab.set_temporary_feature(root, tmp_name, vals)
                refresh()
                for lvl in range(1, depth + 1):
                    ids = root_ids(lvl)
                    got = np.array(chain[lvl][tmp_name][:])
                    if len(ids) and not np.allclose(got, vals[ids]):
                        bad = f"after op {i} {op}: level {lvl} temporary feature is stale"
                continue
            if op[0] == "filt":
                lvl = min(op[1], depth - 1)
                ds = chain[lvl]
                ds.filter.manual[:] = True if lvl < depth else ds.filter.manual
                for k in op[2]:
                    if k < len(ds):
                        ds.filter.manual[k] = False
            else:
                ids = root_ids(depth)
                for k in op[1]:
                    if k < len(chain[-1]):
                        chain[-1].filter.manual[k] = False
                        excluded_root_ids.add(int(ids[k]))
            refresh()
            bad = check(f"after op {i} {op}")
    if bad:
        return {"failed": True, "detail": bad + f" (depth {depth}, n {n}, seed {seed})"}
    return {"failed": False, "detail": "hierarchy equals the filtered view; exclusions persist"}


def bounded_inputs(unit_name, rng):
    import random as _r
    for depth in (1, 2, 3):
        for seed in (1, 2):
            yield {"depth": depth, "n": 9, "seed": seed}
    r = _r.Random(7)
    for t in range(120):
        depth = r.choice((2, 2, 3))
        ops = []
        for _ in range(r.randint(4, 9)):
            if r.random() < 0.2:
                ops.append(("temp", r.randint(1, 50)))
            elif r.random() < 0.3:
                ops.append(("man", sorted(r.sample(range(6), r.randint(1, 3)))))
            else:
                ops.append(("filt", r.randint(0, depth - 1), sorted(r.sample(range(8), r.randint(0, 3)))))
        yield {"depth": depth, "n": 9, "seed": t, "ops": ops}
    yield {"depth": 2, "n": 9, "seed": 3,
           "ops": [("filt", 0, [0]), ("man", [1, 3]), ("filt", 1, [1]), ("filt", 1, [1]), ("filt", 1, []),
                   ("filt", 0, [0, 4]), ("filt", 0, [0])]}


from pyvc.sym import Sym as _SymBase   # noqa: E402


# ---------------------------------------------------------------- parent-change detection
class HashTok(_SymBase):
    """digest (A-HASH: injective) of the listed array values / digests"""

    def __init__(self, parts):
        self.parts = parts          # list of SArr snapshots or HashTok

    def arrays(self):
        out = []
        for p in self.parts:
            out.extend(p.arrays() if isinstance(p, HashTok) else [p])
        return out


class HashObj(Contract):
    """util.hashobj(x): md5 of obj2bytes(x); for an array the digest of its bytes,
    for a list of digests (fixed-length hex strings) the digest of their
    concatenation -- injective on such arguments (A-HASH)"""
    name = "hashobj"
    trusted = True

    def __call__(self, interp, obj):
        from pyvc.engine import Unsupported
        if isinstance(obj, SArr) and not getattr(obj, "is_list", False):
            snap = SArr(obj.n, obj.a, obj.kind)
            snap.src_uid = obj.uid
            return HashTok([snap])
        if isinstance(obj, list) and all(isinstance(x, HashTok) for x in obj):
            return HashTok(list(obj))
        raise Unsupported("hashobj of " + type(obj).__name__)


def hash_eq(h1, h2):
    """formula: two digests are equal (A-HASH: iff the hashed values are equal)"""
    a1, a2 = h1.arrays(), h2.arrays()
    if len(a1) != len(a2):
        return z3.BoolVal(False)
    k = z3.Int("k!h")
    conj = []
    for x, y in zip(a1, a2):
        conj.append(z3.And(x.n == y.n, z3.ForAll([k], z3.Implies(z3.And(k >= 0, k < x.n), x.sel(k) == y.sel(k)))))
    return z3.And(*conj) if conj else z3.BoolVal(True)


from pyvc import models as _models   # noqa: E402
_geq_prev = _models.generic_eq


def _geq_hash(interp, a, b):
    if isinstance(a, HashTok) and isinstance(b, HashTok):
        return wrap(hash_eq(a, b))
    if isinstance(a, HashTok) or isinstance(b, HashTok):
        return False
    return _geq_prev(interp, a, b)


_models.generic_eq = _geq_hash


class ParentChangedUnit(Contract):
    """parent_changed (depth d): False only if the filters of *all* ancestors are
    what they were when update_parent stored the hash -- so an unnoticed change of
    the child -> root mapping is impossible; and False whenever nothing changed."""
    path = HFILT
    module = HFMOD
    qualname = "HierarchyFilter.parent_changed"
    classes = {"HierarchyFilter": (HFILT, "HierarchyFilter")}
    class_modules = {"HierarchyFilter": HFMOD}
    inline = {"HierarchyFilter._get_parent_hash"}
    params = ("self",)

    def __init__(self, depth):
        self.depth = depth
        self.name = f"HierarchyFilter.parent_changed[depth {depth}]"
        super().__init__()
        self.callees = {"hashobj": HashObj()}

    def inputs(self, ctx):
        # ancestors: parent (level d-1) ... root (level 0); each with old and current filter
        olds, news = [], []
        node = None
        for lvl in range(self.depth):
            n = ctx.int(f"n{lvl}", lo=0)
            o = ctx.arr(f"old_filter{lvl}", "bool", inp=True)
            c = ctx.arr(f"filter{lvl}", "bool", inp=True)
            olds.append(o)
            news.append(c)
            fields = {"filter": ctx.obj("Filter", {"all": c}), "format": "hdf5" if lvl == 0 else "hierarchy"}
            if node is not None:
                fields["hparent"] = node
            node = ctx.obj("DS" if lvl == 0 else "Hier", fields, name=f"level{lvl}")
        self._g = NS(dict(olds=olds, news=news))
        # the stored hash is what update_parent computes (same code path, executed on the old filters):
        # UpdateParentUnit proves that it covers every ancestor, parent first
        stored = HashTok([HashTok([o]) for o in reversed(olds)]) if self._covers_all() else HashTok([olds[-1]])
        return {"self": ctx.obj("HierarchyFilter", {"_parent_rtdc_ds": node, "_parent_hash": stored}, name="self")}

    def _covers_all(self):
        # does the code under contract hash every ancestor?  (decided from the update_parent unit's shape:
        # the current tree defines _get_parent_hash)
        from pyvc import source
        return source.load(HFILT).get("HierarchyFilter._get_parent_hash") is not None

    def ensures(self, ctx, old, a, result):
        g = self._g
        k = z3.Int("k!p")
        same = z3.And(*[z3.And(o.n == c.n, z3.ForAll([k], z3.Implies(z3.And(k >= 0, k < o.n), o.sel(k) == c.sel(k))))
                        for o, c in zip(g.olds, g.news)])
        r = to_z3(result, "bool") if not isinstance(result, bool) else z3.BoolVal(result)
        return [("not reported as changed => no ancestor's filter changed (the child -> root mapping is the old one)",
                 z3.Implies(z3.Not(r), same)),
                ("nothing changed => not reported as changed", z3.Implies(same, z3.Not(r)))]


class UpdateParentUnit(Contract):
    """update_parent(parent): remembers the parent and a digest that covers the
    filter of every ancestor (parent first, root last)"""
    path = HFILT
    module = HFMOD
    qualname = "HierarchyFilter.update_parent"
    classes = {"HierarchyFilter": (HFILT, "HierarchyFilter")}
    class_modules = {"HierarchyFilter": HFMOD}
    inline = {"HierarchyFilter._get_parent_hash"}
    params = ("self", "parent_rtdc_ds")

    def __init__(self, depth):
        self.depth = depth
        self.name = f"HierarchyFilter.update_parent[depth {depth}]"
        super().__init__()
        self.callees = {"hashobj": HashObj()}

    def inputs(self, ctx):
        arrs = []
        node = None
        for lvl in range(self.depth):
            c = ctx.arr(f"filter{lvl}", "bool", inp=True)
            arrs.append(c)
            fields = {"filter": ctx.obj("Filter", {"all": c}), "format": "hdf5" if lvl == 0 else "hierarchy"}
            if node is not None:
                fields["hparent"] = node
            node = ctx.obj("DS" if lvl == 0 else "Hier", fields, name=f"level{lvl}")
        self._g = NS(dict(arrs=arrs, parent=node))
        return {"self": ctx.obj("HierarchyFilter", {}, name="self"), "parent_rtdc_ds": node}

    def ensures(self, ctx, old, a, result):
        g = self._g
        h = a.self.fields.get("_parent_hash")
        covered = [getattr(x, "src_uid", None) for x in h.arrays()] if isinstance(h, HashTok) else []
        return [("the parent is remembered", z3.BoolVal(a.self.fields.get("_parent_rtdc_ds") is g.parent)),
                ("the stored digest covers the filter of every ancestor (parent first, root last)",
                 z3.BoolVal(covered == [x.uid for x in reversed(g.arrs)]))]


UNITS += [ParentChangedUnit(1), ParentChangedUnit(2), ParentChangedUnit(3),
          UpdateParentUnit(1), UpdateParentUnit(2), UpdateParentUnit(3)]
TRUSTED += [HashObj()]
