"""C16 — downsampling returns a reproducible subset of the requested size.

The functions live in dclab/downsampling.pyx; the verified text is the file of
/repo with Cython's C declarations deleted (pyvc/cy2py.py, deletions listed in
the evidence).  The running code is the extension module built from that text;
`extra_checks` compares the two on random inputs (bounded).
"""
import numpy as np
import z3

from pyvc import models, npmodel, h5model, rngmodel   # noqa: F401
from pyvc.contract import Contract
from pyvc.engine import LoopSpec, NS, PyRaise
from pyvc.models import where_idx
from pyvc.rngmodel import count
from pyvc.sym import SArr, SObj, SInt, F, Z, to_z3, wrap

PYX = "dclab/downsampling.pyx"
MOD = "dclab.downsampling"
GRID = 300


def bad_of(arr, k):
    """np.isnan(x) | np.isinf(x) of one F element"""
    return z3.Not(F.is_fin(arr.sel(k)))


# --------------------------------------------------------------------------
class Norm(Contract):
    """norm(a) for a finite array that is not constant: every result lies in [0, 1]
    (the grid index computed from it is then below the grid size).  For a constant
    array the quotient is 0/0 -- see finding D25."""
    path = PYX
    module = MOD
    qualname = "norm"
    name = "norm[finite, not constant]"
    params = ("a",)

    def inputs(self, ctx):
        a = ctx.arr("a", "real", inp=True)
        ctx.assume(a.n >= 1)
        p, q = ctx.int("p"), ctx.int("q")
        ctx.assume(z3.And(p.e >= 0, p.e < a.n, q.e >= 0, q.e < a.n, a.sel(p.e) != a.sel(q.e)))
        return {"a": a}

    def ensures(self, ctx, old, a, result):
        k = z3.Int("k!n")
        return [("the result has the length of the input", result.n == a.a.n),
                ("every entry lies in [0, 1]",
                 z3.ForAll([k], z3.Implies(z3.And(k >= 0, k < result.n),
                                           z3.And(result.sel(k) >= 0, result.sel(k) <= 1))))]


class NormCallee(Contract):
    """norm() at its call sites in downsample_grid: result of the same length; in
    [0,1] when the argument is not constant (verified: unit norm); nothing is
    known about the values otherwise"""
    name = "norm"

    def __call__(self, interp, a):
        ctx = interp.ctx
        ctx.check(a.n >= 1, "norm: non-empty argument (min of an empty array raises)", kind="requires")
        if a.kind == "F":
            k = z3.Int("k!nf")
            ctx.check(z3.ForAll([k], z3.Implies(z3.And(k >= 0, k < a.n), F.is_fin(a.sel(k)))),
                      "norm: the argument holds finite values only", kind="requires")
        r = ctx.arr("normed", "real", n=a.n)
        i, j, k = z3.Int("i!nc"), z3.Int("j!nc"), z3.Int("k!nc")
        nonconst = z3.Exists([i, j], z3.And(i >= 0, i < a.n, j >= 0, j < a.n, a.sel(i) != a.sel(j)))
        ctx.assume(z3.Implies(nonconst, z3.ForAll([k], z3.Implies(z3.And(k >= 0, k < a.n),
                                                                 z3.And(r.sel(k) >= 0, r.sel(k) <= 1)))))
        return r


# --------------------------------------------------------------------------
class PopulateGrid(Contract):
    """populate_grid(x, y, keepd, toproc) with every index inside the grid: marks
    exactly the first event of every occupied cell; no out-of-bounds access."""
    path = PYX
    module = MOD
    qualname = "populate_grid"
    name = "populate_grid"
    params = ("x_discrete", "y_discrete", "keepd", "toproc")

    def __init__(self):
        super().__init__()
        self.loops = {"ii in range(iter_size)": LoopSpec(
            inv=self.inv, modifies=lambda ctx, v: [v.keepd, v.toproc, v.toproc.fields["flat"]])}
        # ghost assertion inside the loop body: the cell of the current event is still
        # marked exactly when no earlier event lies in it (instance of the invariant)
        self.asserts = {"yi = y_view[ii]": self.g_cell}

    def g_cell(self, ctx, v):
        ii = to_z3(v.ii)
        c0 = to_z3(v.xi) * GRID + to_z3(v.yi)
        flat = v.toproc.fields["flat"]
        return [("the current cell index is inside the grid", z3.And(c0 >= 0, c0 < GRID * GRID, c0 == self.cell(ii))),
                ("the current cell is still marked exactly when this is the first event in it",
                 (flat.sel(c0) != 0) == self.first(ii))]

    def inputs(self, ctx):
        n = ctx.int("n", lo=0, inp=True)
        x = ctx.arr("x", "int", n=n.e, inp=True)
        y = ctx.arr("y", "int", n=n.e, inp=True)
        k = z3.Int("k!pg")
        ctx.assume(z3.ForAll([k], z3.Implies(z3.And(k >= 0, k < n.e),
                                             z3.And(x.sel(k) >= 0, x.sel(k) < GRID, y.sel(k) >= 0, y.sel(k) < GRID))))
        fake = NS({"ctx": ctx, "cur_frame": None})
        keepd = models.arr_new(fake, n.e, lambda k: Z(0), "int")
        toproc = rngmodel.new_grid(fake, GRID, GRID, 1)
        self._x, self._y, self._n = x, y, n.e
        return {"x_discrete": x, "y_discrete": y, "keepd": keepd, "toproc": toproc}

    def cell(self, j):
        return self._x.sel(j) * GRID + self._y.sel(j)

    def first(self, j):
        l_ = z3.Int("l!pg")
        return z3.ForAll([l_], z3.Implies(z3.And(l_ >= 0, l_ < j), self.cell(l_) != self.cell(j)))

    def inv(self, ctx, v):
        j, c = z3.Int("j!pi"), z3.Int("c!pi")
        ii = to_z3(v.it)
        flat = v.toproc.fields["flat"]
        l_ = z3.Int("l!pc")
        return [("keepd has its length and marks exactly the first event of each cell among the events seen",
                 z3.And(v.keepd.n == self._n,
                        z3.ForAll([j], z3.Implies(z3.And(j >= 0, j < self._n),
                                                  v.keepd.sel(j) == z3.If(z3.And(j < ii, self.first(j)), Z(1), Z(0)))))),
                ("a cell is cleared exactly when an event seen so far lies in it",
                 z3.ForAll([c], z3.Implies(z3.And(c >= 0, c < GRID * GRID),
                                           flat.sel(c) == z3.If(z3.Exists([l_], z3.And(l_ >= 0, l_ < ii,
                                                                                     self.cell(l_) == c)),
                                                                Z(0), Z(1)))))]

    def ensures(self, ctx, old, a, result):
        j = z3.Int("j!pp")
        return [("keepd[j] == 1 exactly for the first event of every occupied cell, 0 otherwise",
                 z3.And(a.keepd.n == self._n,
                        z3.ForAll([j], z3.Implies(z3.And(j >= 0, j < self._n),
                                                  a.keepd.sel(j) == z3.If(self.first(j), Z(1), Z(0))))))]


class PopulateGridCallee(Contract):
    """populate_grid at its call site: requires every index inside the grid
    (otherwise the typed memoryview access raises IndexError); keepd becomes a 0/1
    vector of unchanged length"""
    name = "populate_grid"

    def __call__(self, interp, x_discrete=None, y_discrete=None, keepd=None, toproc=None):
        ctx = interp.ctx
        k = z3.Int("k!pq")
        inside = z3.ForAll([k], z3.Implies(z3.And(k >= 0, k < x_discrete.n),
                                           z3.And(x_discrete.sel(k) >= 0, x_discrete.sel(k) < GRID,
                                                  y_discrete.sel(k) >= 0, y_discrete.sel(k) < GRID)))
        unit = interp.cur_frame.unit
        if getattr(unit, "d25_active", False):
            # known finding D25: for a constant coordinate the indices are the cast of 0/0
            if ctx.decide(wrap(z3.Not(inside))):
                raise PyRaise(IndexError, ("Out of bounds on buffer access (axis 0)",))
        else:
            ctx.check(inside, "populate_grid: every grid index lies inside the grid", kind="requires")
        interp.heap_write(keepd)
        new = ctx.arr("keepd", "int", n=keepd.n)
        ctx.assume(z3.ForAll([k], z3.Implies(z3.And(k >= 0, k < keepd.n),
                                             z3.Or(new.sel(k) == 0, new.sel(k) == 1))))
        models.arr_assign_all(interp, keepd, new)
        return None


# --------------------------------------------------------------------------
def selection_post(ctx, interp_free, a_arr, mask, out, what):
    """`out` is the selection a[mask]: same enumeration as np.where(mask)"""
    fake = NS({"ctx": ctx, "cur_frame": None})
    idx = where_idx(fake, SArr(mask.n, mask.a, "bool"))
    i = z3.Int("i!sp")
    return (f"{what}: the returned values are a[mask], in order (nothing altered, nothing duplicated)",
            z3.And(out.n == idx.n,
                   z3.ForAll([i], z3.Implies(z3.And(i >= 0, i < idx.n), out.sel(i) == a_arr.sel(idx.sel(i))))))


class DownsampleRand(Contract):
    """downsample_rand(a, samples, remove_invalid, ret_idx=True) -> (dsa, idx):
    idx has the length of a, selects only eligible entries (finite ones when
    remove_invalid), exactly `samples` of them when 0 < samples < #eligible and all
    eligible ones otherwise; dsa == a[idx]; the draw starts from the fixed state."""
    path = PYX
    module = MOD
    qualname = "downsample_rand"
    params = ("a", "samples", "remove_invalid", "ret_idx")
    count_masks = True

    def __init__(self, remove_invalid):
        self.remove_invalid = remove_invalid
        self.name = f"downsample_rand[remove_invalid={remove_invalid}]"
        super().__init__()

    def inputs(self, ctx):
        a = ctx.arr("a", "F", inp=True, dtype=np.dtype("float64"))
        samples = ctx.int("samples", lo=0, hi=2 ** 32 - 1, inp=True)
        self._a = a
        return {"a": a, "samples": samples, "remove_invalid": self.remove_invalid, "ret_idx": True}

    def ensures(self, ctx, old, a, result):
        dsa, idx = result
        fake = NS({"ctx": ctx, "cur_frame": None})
        arr = self._a
        k = z3.Int("k!dr")
        s = a.samples.e
        if self.remove_invalid:
            # eligible = finite entries; the code's `~bad` is elementwise the same mask
            # (N-WHERE-EXT links the two enumerations)
            elig = models.arr_new(fake, arr.n, lambda k: F.is_fin(arr.sel(k)), "bool")
            elig = SArr(elig.n, elig.a, "bool")
            ctx.assume(models.where_ext(fake, elig, models.unaryop(fake, "Invert", a.bad)))
            E = count(fake, elig)
        else:
            E = arr.n
        cnt = count(fake, SArr(idx.n, idx.a, "bool"))
        posts = [("the mask has the length of the input", idx.n == arr.n),
                 ("the number of selected events is the request when 0 < request < #eligible, else #eligible",
                  cnt == z3.If(z3.And(s > 0, s < E), s, E)),
                 selection_post(ctx, None, arr, idx, dsa, "dsa")]
        if self.remove_invalid:
            posts.append(("only finite entries are selected",
                          z3.ForAll([k], z3.Implies(z3.And(k >= 0, k < arr.n, idx.sel(k)), F.is_fin(arr.sel(k))))))
        return posts


UNITS = [Norm(), PopulateGrid(), DownsampleRand(False), DownsampleRand(True)]
TRUSTED = []
TRUSTED_BASE = ["N-WHERE / N-MASK / N-MASK-ASSIGN / N-FANCY-STORE (rank/select model of boolean and integer indexing)",
                "N-COUNT-COMPL, N-COUNT-FLIP, N-COUNT-MASKSET (counting facts about masks; audited exhaustively up to length 7)",
                "N-CHOICE, A-RNG (choice without replacement; draws are functions of the generator state)",
                "N-EXTREME, N-CAST-UINT", "cy2py: C declarations deleted (listed per function under 'dropped')"]
ASSUMPTIONS = ["machine integers of the Cython locals are treated as mathematical integers: 0 <= samples < 2**32, "
               "array lengths < 2**31", "floating-point arithmetic in norm() is treated as real arithmetic "
               "(rounding cannot leave [0, 1] for IEEE division of 0 <= x <= y, y > 0; not machine-checked)"]


# --------------------------------------------------------------------------
def _active(pid="C16"):
    import json, pathlib as _p
    f = _p.Path(__file__).resolve().parent.parent / "known_findings.json"
    if not f.exists():
        return set()
    return {k["id"] for k in json.loads(f.read_text()) if k["property"] == pid and k["kind"] == "finding"}


class DownsampleGrid(Contract):
    """downsample_grid(a, b, samples, remove_invalid, ret_idx=True) -> (asd, bsd, keep)
    (body below the @Cache decorator, which is C17's subject):
    keep has the length of the input; with remove_invalid only events valid in both
    coordinates are kept: `samples` of them when 0 < samples < #valid, all valid ones
    otherwise; without it, `samples` events when 0 < samples <= N (valid ones first,
    padded with invalid ones), all N events for samples == 0 or samples > N;
    asd == a[keep], bsd == b[keep]; every draw starts from the fixed generator state.

    Known findings (the extension module cannot be rebuilt here, see DESIGN.md):
    D3  samples > N without remove_invalid raises ValueError,
    D25 a coordinate that is constant over the valid events raises IndexError when
        0 < samples < #valid."""
    path = PYX
    module = MOD
    qualname = "downsample_grid"
    params = ("a", "b", "samples", "remove_invalid", "ret_idx")
    count_masks = True
    grid2d = True

    def __init__(self, remove_invalid, findings=()):
        self.remove_invalid = remove_invalid
        self.findings = set(findings)
        self.d25_active = "D25" in self.findings
        self.name = f"downsample_grid[remove_invalid={remove_invalid}]"
        super().__init__()
        self.callees = {"norm": NormCallee(), "populate_grid": PopulateGridCallee()}
        # intermediate ghost assertions (proved where they stand, then facts)
        self.asserts = {
            "keepdb[rem] = False": self.g_keepdb, "keepdb[add] = True": self.g_keepdb,
            "keep[bad] = False": self.g_keep_is_good,
            "keep[good] = keepdb": self.g_keep_good,
            "keep[add_bad] = True": self.g_padded,
        }

    @staticmethod
    def _cnt(ctx, m):
        return count(NS({"ctx": ctx, "cur_frame": None}), SArr(m.n, m.a, "bool"))

    def g_keepdb(self, ctx, v):
        return [("the grid selection now holds exactly `samples` events",
                 self._cnt(ctx, v.keepdb) == to_z3(v.samples_int))]

    def g_keep_is_good(self, ctx, v):
        k = z3.Int("k!g1")
        fake = NS({"ctx": ctx, "cur_frame": None})
        # N-WHERE-EXT instance: once the elementwise equality below is proved, the
        # two masks have the same enumeration (hence the same count)
        ctx.assume(models.where_ext(fake, SArr(v.keep.n, v.keep.a, "bool"), SArr(v.good.n, v.good.a, "bool")))
        return [("keep is the mask of valid events",
                 z3.And(v.keep.n == v.good.n,
                        z3.ForAll([k], z3.Implies(z3.And(k >= 0, k < v.keep.n), v.keep.sel(k) == v.good.sel(k)))))]

    def g_keep_good(self, ctx, v):
        k = z3.Int("k!g2")
        return [("keep holds as many events as the grid selection, all of them valid",
                 z3.And(self._cnt(ctx, v.keep) == self._cnt(ctx, v.keepdb),
                        z3.ForAll([k], z3.Implies(z3.And(k >= 0, k < v.keep.n, v.keep.sel(k)), v.good.sel(k)))))]

    def g_padded(self, ctx, v):
        s = to_z3(v.samples_int)
        return [("after padding keep holds `samples` events (all events for samples == 0)",
                 self._cnt(ctx, v.keep) == z3.If(s != 0, s, v.keep.n))]

    def inputs(self, ctx):
        n = ctx.int("N", lo=0, hi=2 ** 31 - 1, inp=True)
        a = ctx.arr("a", "F", n=n.e, inp=True, dtype=np.dtype("float64"))
        b = ctx.arr("b", "F", n=n.e, inp=True, dtype=np.dtype("float64"))
        samples = ctx.int("samples", lo=0, hi=2 ** 32 - 1, inp=True)
        self._a, self._b, self._n = a, b, n.e
        return {"a": a, "b": b, "samples": samples, "remove_invalid": self.remove_invalid, "ret_idx": True}

    def good(self, k):
        return z3.And(F.is_fin(self._a.sel(k)), F.is_fin(self._b.sel(k)))

    def spec_masks(self, ctx, a):
        fake = NS({"ctx": ctx, "cur_frame": None})
        g = models.arr_new(fake, self._n, lambda k: self.good(k), "bool")
        g = SArr(g.n, g.a, "bool")
        ctx.assume(models.where_ext(fake, g, SArr(a.good.n, a.good.a, "bool")))
        return fake, g

    def ensures(self, ctx, old, a, result):
        asd, bsd, keep = result
        fake, g = self.spec_masks(ctx, a)
        k = z3.Int("k!dg")
        s, N = a.samples.e, self._n
        G = count(fake, g)
        cnt = count(fake, SArr(keep.n, keep.a, "bool"))
        if self.remove_invalid:
            want = z3.If(z3.And(s > 0, s < G), s, G)
        else:
            want = z3.If(z3.And(s > 0, s <= N), s, N)
        posts = [("the mask has the length of the input", keep.n == N),
                 ("the number of returned events is the request when that many eligible events exist, "
                  "else all eligible events", cnt == want),
                 selection_post(ctx, None, self._a, keep, asd, "asd"),
                 selection_post(ctx, None, self._b, keep, bsd, "bsd")]
        if self.remove_invalid:
            posts.append(("only events valid in both coordinates are returned",
                          z3.ForAll([k], z3.Implies(z3.And(k >= 0, k < N, keep.sel(k)), self.good(k)))))
        else:
            posts.append(("invalid events are only used for padding: when at least `samples` valid events exist, "
                          "only valid ones are returned",
                          z3.Implies(z3.And(s > 0, s <= G),
                                     z3.ForAll([k], z3.Implies(z3.And(k >= 0, k < N, keep.sel(k)), self.good(k))))))
        return posts

    def exceptional(self, ctx, old, a, exc):
        s, N = a.samples.e, self._n
        if exc.name == "ValueError" and "D3" in self.findings and not self.remove_invalid:
            return s > N
        if exc.name == "IndexError" and "D25" in self.findings:
            fake, g = self.spec_masks(ctx, a)
            i, j = z3.Int("i!ce"), z3.Int("j!ce")

            def const(arr):
                return z3.ForAll([i, j], z3.Implies(z3.And(i >= 0, i < N, j >= 0, j < N, self.good(i), self.good(j)),
                                                    arr.sel(i) == arr.sel(j)))
            G = count(fake, g)
            return z3.And(s > 0, s < G, z3.Or(const(self._a), const(self._b)))
        return None


UNITS += [DownsampleGrid(False, _active()), DownsampleGrid(True, _active())]


# --------------------------------------------------------------------------
# replay on the real (compiled) code
# --------------------------------------------------------------------------
def _arr(v, n=None):
    vals = list(v) if isinstance(v, (list, tuple)) else []
    out = []
    for x in vals:
        if isinstance(x, str):
            x = {"nan": float("nan"), "pinf": float("inf"), "ninf": float("-inf")}.get(x, float("nan"))
        out.append(float(x))
    if n is not None:
        out = (out + [float(len(out) + i) for i in range(n)])[:n]
    return np.array(out, dtype=float)


def _expect_count(valid, N, s, remove_invalid):
    G = int(valid.sum())
    if remove_invalid:
        return s if 0 < s < G else G
    return s if 0 < s <= N else N


def _check_grid(a, b, s, remove_invalid):
    from dclab import downsampling as D
    valid = np.isfinite(a) & np.isfinite(b)
    try:
        r1 = D.downsample_grid(a, b, s, remove_invalid=remove_invalid, ret_idx=True)
        r2 = D.downsample_grid(a.copy(), b.copy(), s, remove_invalid=remove_invalid, ret_idx=True)
    except Exception as ex:
        return f"raises {type(ex).__name__}: {ex}"
    asd, bsd, keep = r1
    if keep.shape != a.shape or keep.dtype != bool:
        return f"mask has shape {keep.shape}, dtype {keep.dtype}"
    if not (np.array_equal(a[keep], asd, equal_nan=True) and np.array_equal(b[keep], bsd, equal_nan=True)):
        return "the mask does not select the returned events"
    want = _expect_count(valid, a.size, s, remove_invalid)
    if int(keep.sum()) != want:
        return f"{int(keep.sum())} events returned, expected {want}"
    if remove_invalid and np.any(keep & ~valid):
        return "invalid events returned although remove_invalid=True"
    if not remove_invalid and 0 < s <= valid.sum() and np.any(keep & ~valid):
        return "invalid events returned although enough valid events exist"
    if not np.array_equal(keep, r2[2]):
        return "the same input gave a different selection"
    return None


def _check_rand(a, s, remove_invalid):
    from dclab import downsampling as D
    valid = np.isfinite(a)
    try:
        dsa, idx = D.downsample_rand(a, s, remove_invalid=remove_invalid, ret_idx=True)
        dsa2, idx2 = D.downsample_rand(a.copy(), s, remove_invalid=remove_invalid, ret_idx=True)
    except Exception as ex:
        return f"raises {type(ex).__name__}: {ex}"
    E = int(valid.sum()) if remove_invalid else a.size
    want = s if 0 < s < E else E
    if idx.shape != a.shape:
        return f"mask has shape {idx.shape}"
    if not np.array_equal(a[idx], dsa, equal_nan=True):
        return "the mask does not select the returned events"
    if int(idx.sum()) != want:
        return f"{int(idx.sum())} events returned, expected {want}"
    if remove_invalid and np.any(idx & ~valid):
        return "invalid events returned although remove_invalid=True"
    if not np.array_equal(idx, idx2):
        return "the same input gave a different selection"
    return None


def replay(unit_name, inp, obligation=""):
    import warnings
    with warnings.catch_warnings():
        warnings.simplefilter("ignore")
        if unit_name.startswith("downsample_grid"):
            ri = inp.get("remove_invalid", "remove_invalid=True" in unit_name)
            n = inp.get("N")
            a, b = _arr(inp.get("a", []), n), _arr(inp.get("b", []), n)
            m = min(a.size, b.size)
            msg = _check_grid(a[:m], b[:m], int(inp.get("samples", 0)), ri)
            return {"failed": msg is not None, "detail": msg or "holds on the real code"}
        if unit_name.startswith("downsample_rand"):
            ri = inp.get("remove_invalid", "remove_invalid=True" in unit_name)
            msg = _check_rand(_arr(inp.get("a", [])), int(inp.get("samples", 0)), ri)
            return {"failed": msg is not None, "detail": msg or "holds on the real code"}
    return {"failed": None, "detail": "no replay for " + unit_name}


def in_carve_out(unit_name, inp):
    if not unit_name.startswith("downsample_grid"):
        return None
    ri = inp.get("remove_invalid", "remove_invalid=True" in unit_name)
    a, b = _arr(inp.get("a", []), inp.get("N")), _arr(inp.get("b", []), inp.get("N"))
    m = min(a.size, b.size)
    a, b = a[:m], b[:m]
    s = int(inp.get("samples", 0))
    valid = np.isfinite(a) & np.isfinite(b)
    if not ri and s > m:
        return "D3"
    if 0 < s < valid.sum() and (np.ptp(a[valid]) == 0 or np.ptp(b[valid]) == 0):
        return "D25"
    return None


def bounded_inputs(unit_name, rng):
    vals = [0.0, 1.0, 2.5, -1.0, 1.0, float("nan"), float("inf"), 7.0, 3.0, float("-inf")]
    for n in range(0, 9):
        for _ in range(12):
            a = [rng.choice(vals) + (rng.random() if rng.random() < 0.7 else 0) for _ in range(n)]
            b = [rng.choice(vals) + (rng.random() if rng.random() < 0.7 else 0) for _ in range(n)]
            for s in (0, 1, max(n - 1, 0), n, n + 2):
                for ri in (False, True):
                    yield {"a": a, "b": b, "samples": s, "remove_invalid": ri}


# --------------------------------------------------------------------------
# dataset level: RTDCBase.get_downsampled_scatter
# --------------------------------------------------------------------------
CORE = "dclab/rtdc_dataset/core.py"
CMOD = "dclab.rtdc_dataset.core"


class DownsampleGridCallee(Contract):
    """downsample_grid at its call site: the verified contract of the unit
    downsample_grid, including the two known findings as raising conditions"""
    name = "downsample_grid"

    def __init__(self, findings):
        self.findings = set(findings)
        super().__init__()

    def __call__(self, interp, a, b, samples=None, remove_invalid=False, ret_idx=False):
        ctx = interp.ctx
        s = to_z3(samples)
        N = a.n
        ctx.check(z3.And(a.n == b.n, s >= 0, s < 2 ** 32), "downsample_grid: equally long arrays, 0 <= samples < 2**32",
                  kind="requires")
        good = models.arr_new(interp, N, lambda k: z3.And(F.is_fin(a.sel(k)), F.is_fin(b.sel(k))), "bool")
        good = SArr(good.n, good.a, "bool")
        G = count(interp, good)
        if not isinstance(remove_invalid, bool):
            remove_invalid = ctx.decide(remove_invalid)
        if "D3" in self.findings and not remove_invalid:
            if ctx.decide(wrap(s > N)):
                raise PyRaise(ValueError, ("Cannot take a larger sample than population when 'replace=False'",))
        if "D25" in self.findings:
            i, j = z3.Int("i!cc"), z3.Int("j!cc")

            def const(arr):
                return z3.ForAll([i, j], z3.Implies(z3.And(i >= 0, i < N, j >= 0, j < N, good.sel(i), good.sel(j)),
                                                    arr.sel(i) == arr.sel(j)))
            if ctx.decide(wrap(z3.And(s > 0, s < G, z3.Or(const(a), const(b))))):
                raise PyRaise(IndexError, ("Out of bounds on buffer access (axis 0)",))
        keep = ctx.arr("grid_keep", "bool", n=N)
        cnt = count(interp, keep)
        k = z3.Int("k!gc")
        if remove_invalid:
            ctx.assume(cnt == z3.If(z3.And(s > 0, s < G), s, G))
            ctx.assume(z3.ForAll([k], z3.Implies(z3.And(k >= 0, k < N, keep.sel(k)), good.sel(k))))
        else:
            ctx.assume(cnt == z3.If(z3.And(s > 0, s <= N), s, N))
            ctx.assume(z3.Implies(z3.And(s > 0, s <= G),
                                  z3.ForAll([k], z3.Implies(z3.And(k >= 0, k < N, keep.sel(k)), good.sel(k)))))
        self.last = NS({"good": good, "G": G, "keep": keep, "s": s, "N": N, "ctx": ctx})
        interp.cur_frame.unit._grid = self.last
        if ret_idx:
            return (models.mask_select(interp, a, keep), models.mask_select(interp, b, keep), keep)
        return (models.mask_select(interp, a, keep), models.mask_select(interp, b, keep))


class ApplyScale(Contract):
    """RTDCBase._apply_scale(a, scale, feat): the array itself for "linear", for
    "log" a new array of the same length holding log(a) (NaN / -inf where a <= 0)"""
    name = "RTDCBase._apply_scale"
    trusted = True

    def __call__(self, interp, a, scale, feat):
        if scale == "linear":
            return a
        return log_scaled(interp, a)


LOGF = z3.Function("log_of_value", F, F)


def log_scaled(interp, a):
    """np.log elementwise as an uninterpreted function of the value (NaN / -inf where the value is not
    positive: nothing about the values is needed, only that equal inputs give equal outputs); the same
    array gives the same term in the code and in the specification"""
    ctx = interp.ctx
    store = ctx.__dict__.setdefault("_log_scaled", {})
    key = a.a.get_id()
    if key not in store:
        r = models.arr_new(interp, a.n, lambda k: LOGF(a.sel(k)), "F", np.dtype("float64"))
        store[key] = (r.a, r.n)
    a_term, n_term = store[key]
    return SArr(n_term, a_term, "F", dtype=np.dtype("float64"))


class DsFeature(Contract):
    name = "DS.__getitem__"
    trusted = True

    def __call__(self, interp, ds, key):
        return ds.fields["_feats"][key]


class DsLen(Contract):
    name = "DS.__len__"
    trusted = True

    def __call__(self, interp, ds):
        return ds.fields["_N"]


class GetDownsampledScatter(Contract):
    """ds.get_downsampled_scatter(xax, yax, downsample, xscale, yscale,
    remove_invalid, ret_mask=True) -> (x, y, mask) for every request size
    (also larger than the data): mask has len(ds) entries, lies inside the filter,
    selects exactly the returned events (x == ds[xax][mask], y == ds[yax][mask]),
    with remove_invalid only events whose scaled coordinates are finite; the
    number of events is the request when that many eligible events pass the
    filter, all eligible ones otherwise (request 0: all)."""
    path = CORE
    module = CMOD
    qualname = "RTDCBase.get_downsampled_scatter"
    classes = {"DS": (CORE, "RTDCBase")}
    class_modules = {"DS": CMOD}
    params = ("self", "xax", "yax", "downsample", "xscale", "yscale", "remove_invalid", "ret_mask")
    count_masks = True

    def __init__(self, remove_invalid, scale, findings=()):
        self.remove_invalid, self.scale = remove_invalid, scale
        # "linear" / "log": both axes; "log/linear", "linear/log": one scale per axis
        self.xscale, self.yscale = scale.split("/") if "/" in scale else (scale, scale)
        self.findings = set(findings)
        self.name = f"RTDCBase.get_downsampled_scatter[remove_invalid={remove_invalid}, {scale}]"
        super().__init__()
        self.callees = {"downsample_grid": DownsampleGridCallee(self.findings),
                        "RTDCBase._apply_scale": ApplyScale(), "_apply_scale": ApplyScale(),
                        "DS.__getitem__": DsFeature(), "DS.__len__": DsLen()}

    def inputs(self, ctx):
        N = ctx.int("N", lo=0, hi=2 ** 31 - 1, inp=True)
        X = ctx.arr("area_um", "F", n=N.e, inp=True, dtype=np.dtype("float64"))
        Y = ctx.arr("deform", "F", n=N.e, inp=True, dtype=np.dtype("float64"))
        fa = ctx.arr("filter_all", "bool", n=N.e, inp=True)
        ds = ctx.obj("DS", {"_feats": {"area_um": X, "deform": Y}, "_N": N,
                            "filter": ctx.obj("Filter", {"all": fa})}, name="ds")
        d = ctx.int("downsample", lo=0, hi=2 ** 32 - 1, inp=True)
        self._X, self._Y, self._fa, self._N = X, Y, fa, N.e
        return {"self": ds, "xax": "area_um", "yax": "deform", "downsample": d, "xscale": self.xscale,
                "yscale": self.yscale, "remove_invalid": self.remove_invalid, "ret_mask": True}

    def ensures(self, ctx, old, a, result):
        x, y, mask = result
        fake = NS({"ctx": ctx, "cur_frame": None})
        k = z3.Int("k!gs")
        d = a.downsample.e
        fa = SArr(self._fa.n, self._fa.a, "bool")
        P = count(fake, fa)           # events passing the filter
        cnt = count(fake, SArr(mask.n, mask.a, "bool"))
        # eligible with remove_invalid: filtered events whose scaled coordinates are finite
        xf, yf = models.mask_select(fake, self._X, fa), models.mask_select(fake, self._Y, fa)
        # the scale of each axis is the one requested for that axis
        xs = log_scaled(fake, xf) if self.xscale == "log" else xf
        ys = log_scaled(fake, yf) if self.yscale == "log" else yf
        good = models.arr_new(fake, xf.n, lambda k: z3.And(F.is_fin(xs.sel(k)), F.is_fin(ys.sel(k))), "bool")
        good = SArr(good.n, good.a, "bool")
        g = getattr(self, "_grid", None)
        if g is not None and g.ctx is ctx:
            ctx.assume(models.where_ext(fake, good, g.good))       # same mask as the callee's, elementwise
        G = count(fake, good)
        if self.remove_invalid:
            want = z3.If(z3.And(d > 0, d < G), d, G)
        else:
            want = z3.If(z3.And(d > 0, d <= P), d, P)
        if self.remove_invalid:
            i = z3.Int("i!gv")
            widx = where_idx(fake, SArr(mask.n, mask.a, "bool"))
            rank_fa = where_idx(fake, fa).rank
            only_valid = ("only events whose scaled coordinates are finite are returned",
                          z3.ForAll([k], z3.Implies(z3.And(k >= 0, k < self._N, mask.sel(k)),
                                                    z3.And(fa.sel(k), good.sel(rank_fa(k))))))
        posts = [("the mask has len(ds) entries and lies inside the filter",
                  z3.And(mask.n == self._N,
                         z3.ForAll([k], z3.Implies(z3.And(k >= 0, k < self._N, mask.sel(k)), self._fa.sel(k))))),
                 ("the number of returned events is the request when that many eligible events pass the filter, "
                  "else all of them", cnt == want),
                 selection_post(ctx, None, self._X, mask, x, "x"),
                 selection_post(ctx, None, self._Y, mask, y, "y")]
        if self.remove_invalid:
            posts.append(only_valid)
        return posts

    def exceptional(self, ctx, old, a, exc):
        if exc.name == "IndexError" and "D25" in self.findings:
            return z3.BoolVal(True)      # raised only by the callee in its recorded carve-out
        return None


UNITS += [GetDownsampledScatter(ri, sc, _active()) for ri in (False, True) for sc in ("linear", "log")]
UNITS += [GetDownsampledScatter(True, sc, _active()) for sc in ("log/linear", "linear/log")]
TRUSTED += [ApplyScale("x") if False else ApplyScale(), DsFeature(), DsLen()]


def _check_scatter(X, Y, fa, d, remove_invalid, scale):
    import dclab
    xscale, yscale = scale.split("/") if "/" in scale else (scale, scale)
    ds = dclab.new_dataset({"area_um": X, "deform": Y})
    ds.filter.manual[:] = fa
    ds.apply_filter()
    try:
        x, y, mask = ds.get_downsampled_scatter(xax="area_um", yax="deform", downsample=d, xscale=xscale,
                                                yscale=yscale, remove_invalid=remove_invalid, ret_mask=True)
        x2, y2, mask2 = ds.get_downsampled_scatter(xax="area_um", yax="deform", downsample=d, xscale=xscale,
                                                   yscale=yscale, remove_invalid=remove_invalid, ret_mask=True)
    except Exception as ex:
        return f"raises {type(ex).__name__}: {ex}"
    with np.errstate(all="ignore"):
        xs = np.log(X) if xscale == "log" else X
        ys = np.log(Y) if yscale == "log" else Y
    valid = np.isfinite(xs) & np.isfinite(ys) & fa
    P, G = int(fa.sum()), int(valid.sum())
    want = (d if 0 < d < G else G) if remove_invalid else (d if 0 < d <= P else P)
    if mask.shape != X.shape:
        return f"mask has shape {mask.shape}"
    if np.any(mask & ~fa):
        return "the mask selects events outside the filter"
    if not (np.array_equal(X[mask], x, equal_nan=True) and np.array_equal(Y[mask], y, equal_nan=True)):
        return "the mask does not select the returned events"
    if int(mask.sum()) != want:
        return f"{int(mask.sum())} events returned, expected {want}"
    if remove_invalid and np.any(mask & ~valid):
        return "invalid events returned although remove_invalid=True"
    if not np.array_equal(mask, mask2):
        return "the same request gave a different selection"
    return None


_replay_prev = replay


def replay(unit_name, inp, obligation=""):   # noqa: F811
    import warnings
    if unit_name.startswith("RTDCBase.get_downsampled_scatter"):
        ri = "remove_invalid=True" in unit_name
        scale = unit_name[unit_name.rindex(", ") + 2:-1]
        n = inp.get("N")
        if n is None:
            n = max(len(inp.get("area_um", [])), len(inp.get("deform", [])), len(inp.get("filter_all", [])))
        n = max(int(n), 1) if inp.get("_min1") else int(n)
        X, Y = _arr(inp.get("area_um", []), n), _arr(inp.get("deform", []), n)
        fa = np.array((list(inp.get("filter_all", [])) + [False] * n)[:n], dtype=bool)
        with warnings.catch_warnings():
            warnings.simplefilter("ignore")
            if n == 0:
                return {"failed": None, "detail": "empty dataset cannot be built for the replay"}
            msg = _check_scatter(X, Y, fa, int(inp.get("downsample", 0)), ri, scale)
        return {"failed": msg is not None, "detail": msg or "holds on the real code"}
    return _replay_prev(unit_name, inp, obligation)


_carve_prev = in_carve_out


def in_carve_out(unit_name, inp):   # noqa: F811
    if unit_name.startswith("RTDCBase.get_downsampled_scatter"):
        n = inp.get("N") or len(inp.get("area_um", []))
        X, Y = _arr(inp.get("area_um", []), n), _arr(inp.get("deform", []), n)
        fa = np.array((list(inp.get("filter_all", [])) + [False] * n)[:n], dtype=bool)
        scale = unit_name[unit_name.rindex(", ") + 2:-1]
        xscale, yscale = scale.split("/") if "/" in scale else (scale, scale)
        with np.errstate(all="ignore"):
            X = np.log(X) if xscale == "log" else X
            Y = np.log(Y) if yscale == "log" else Y
        valid = np.isfinite(X) & np.isfinite(Y) & fa
        d = int(inp.get("downsample", 0))
        if 0 < d < valid.sum() and (np.ptp(X[valid]) == 0 or np.ptp(Y[valid]) == 0):
            return "D25"
        return None
    return _carve_prev(unit_name, inp)


_bounded_prev = bounded_inputs


def bounded_inputs(unit_name, rng):   # noqa: F811
    if unit_name.startswith("RTDCBase.get_downsampled_scatter"):
        vals = [0.5, 1.0, 2.5, -1.0, 0.0, float("nan"), float("inf"), 7.0, 3.0]
        for n in range(1, 9):
            for _ in range(10):
                X = [rng.choice(vals) + rng.random() * (rng.random() < 0.7) for _ in range(n)]
                Y = [rng.choice(vals) + rng.random() * (rng.random() < 0.7) for _ in range(n)]
                fa = [rng.random() < 0.7 for _ in range(n)]
                for d in (0, 1, max(n - 1, 0), n, n + 3):
                    yield {"N": n, "area_um": X, "deform": Y, "filter_all": fa, "downsample": d}
        return
    yield from _bounded_prev(unit_name, rng)


# --------------------------------------------------------------------------
# bounded layers: audit of the counting axioms; the verified text against the
# extension module
# --------------------------------------------------------------------------
def audit_axioms(nmax=6):
    """exhaustive check of the counting / indexing axioms on real numpy for all
    masks up to length nmax (returns the list of failures and the case count)"""
    import itertools
    bad, cases = [], 0
    for n in range(0, nmax + 1):
        masks = [np.array(bits, dtype=bool) for bits in itertools.product([False, True], repeat=n)]
        for m in masks:
            cases += 1
            if np.where(~m)[0].size != n - np.where(m)[0].size:
                bad.append(("N-COUNT-COMPL", m.tolist()))
            w = np.where(m)[0]
            if not (np.all(np.diff(w) > 0) and np.all(m[w]) and w.size == m.sum()):
                bad.append(("N-WHERE", m.tolist()))
            # N-COUNT-FLIP: distinct positions that all flip
            for v in (True, False):
                pos = np.where(m != v)[0]
                for r in range(0, min(len(pos), 3) + 1):
                    for ids in itertools.permutations(pos, r):
                        cases += 1
                        m2 = m.copy()
                        m2[np.array(ids, dtype=int)] = v
                        if m2.sum() != m.sum() + (r if v else -r):
                            bad.append(("N-COUNT-FLIP", m.tolist(), ids, v))
            # N-COUNT-MASKSET and the store through np.where
            c = int(m.sum())
            if n <= 5:
                for vbits in itertools.product([False, True], repeat=c):
                    v = np.array(vbits, dtype=bool)
                    o = np.zeros(n, dtype=bool)
                    o[m] = v
                    o_w = np.zeros(n, dtype=bool)
                    o_w[np.where(m)[0]] = v
                    cases += 1
                    if o.sum() != v.sum() or not np.array_equal(np.where(o)[0], np.where(m)[0][np.where(v)[0]]):
                        bad.append(("N-COUNT-MASKSET", m.tolist(), list(vbits)))
                    if not np.array_equal(o, o_w):
                        bad.append(("store through np.where", m.tolist(), list(vbits)))
    # N-CHOICE / A-RNG
    rs = np.random.RandomState(seed=47).get_state()
    for n in range(0, 9):
        pop = np.arange(n) * 3 + 1
        for k in range(0, n + 3):
            cases += 1
            np.random.set_state(rs)
            try:
                r1 = np.random.choice(pop, size=k, replace=False)
            except ValueError:
                if k <= n:
                    bad.append(("N-CHOICE raises", n, k))
                continue
            if k > n:
                bad.append(("N-CHOICE does not raise", n, k))
                continue
            np.random.set_state(rs)
            r2 = np.random.choice(pop, size=k, replace=False)
            if len(set(r1.tolist())) != k or not set(r1.tolist()) <= set(pop.tolist()) or r1.size != k:
                bad.append(("N-CHOICE", n, k))
            if not np.array_equal(r1, r2):
                bad.append(("A-RNG", n, k))
    # N-CAST-UINT inside the range
    xs = np.array([0.0, 0.5, 1.0, 298.99999, 299.0, 4294967295.0])
    if not np.array_equal(np.array(xs, dtype=np.uint32), np.floor(xs).astype(np.uint64)):
        bad.append(("N-CAST-UINT", xs.tolist()))
    cases += len(xs)
    return bad, cases


def differential(ncases=300, seed=1):
    """the cy2py text executed by CPython against the extension module"""
    import random
    import warnings
    from pyvc import source
    import dclab.downsampling as D
    text = source.load(PYX).text
    ns = {"__name__": "dclab._downsampling_verified_text", "__package__": "dclab"}
    exec(compile(text, PYX, "exec"), ns)
    py_grid = getattr(ns["downsample_grid"], "func", ns["downsample_grid"])
    c_grid = getattr(D.downsample_grid, "func", D.downsample_grid)
    rng = random.Random(seed)
    vals = [0.0, 1.0, 2.5, -1.0, float("nan"), float("inf"), 7.0, 3.0, float("-inf")]
    bad, n_ok = [], 0

    def run(fn, *a, **k):
        try:
            r = fn(*a, **k)
            return ("ok", [np.asarray(x).tolist() for x in r])
        except Exception as ex:
            return ("raise", type(ex).__name__)
    with warnings.catch_warnings():
        warnings.simplefilter("ignore")
        for _ in range(ncases):
            n = rng.randint(0, 40)
            a = np.array([rng.choice(vals) + rng.random() for _ in range(n)])
            b = np.array([rng.choice(vals) + rng.random() for _ in range(n)])
            s = rng.choice([0, 1, 2, max(n // 2, 0), max(n - 1, 0), n, n + 3])
            ri = rng.random() < 0.5
            r1, r2 = run(ns["downsample_rand"], a, s, remove_invalid=ri, ret_idx=True), \
                run(D.downsample_rand, a, s, remove_invalid=ri, ret_idx=True)
            if repr(r1) != repr(r2):
                bad.append(("downsample_rand", a.tolist(), s, ri, r1[0], r2[0]))
            if in_carve_out("downsample_grid", {"a": a.tolist(), "b": b.tolist(), "samples": s, "remove_invalid": ri}) == "D25":
                continue      # the cast of NaN is unspecified: the two builds may differ there
            g1, g2 = run(py_grid, a, b, s, remove_invalid=ri, ret_idx=True), run(c_grid, a, b, s, remove_invalid=ri, ret_idx=True)
            if repr(g1) != repr(g2):
                bad.append(("downsample_grid", a.tolist(), b.tolist(), s, ri, g1[0], g2[0]))
            n_ok += 1
    return bad, n_ok


def extra_checks(run):
    import json as _json
    from pyvc.run import HERE
    bad, cases = audit_axioms(6 if run.tier == "quick" else 7)
    run.extra.setdefault("axiom_audit", []).append(
        {"axioms": "N-WHERE, N-COUNT-COMPL, N-COUNT-FLIP, N-COUNT-MASKSET, store through np.where, N-CHOICE, A-RNG, N-CAST-UINT",
         "method": "exhaustive enumeration on numpy (bounded)", "cases": cases, "failures": len(bad)})
    if bad:
        run.undecided.append(f"axiom audit failed: {bad[:3]}")
    dbad, n = differential(150 if run.tier == "quick" else 1500)
    run.extra.setdefault("bounded_standins", []).append(
        {"function": "dclab/downsampling.pyx (cy2py text) vs. the compiled extension module",
         "tool": "differential execution on random inputs (CPython runs the verified text)", "cases": n,
         "bound": f"{n} random inputs, lengths 0..40, outside the D25 carve-out"})
    if dbad:
        d = HERE / "replays"
        d.mkdir(exist_ok=True)
        fn = d / "C16-differential.json"
        fn.write_text(_json.dumps({"property": "C16", "obligation": "the verified text and the extension module agree",
                                   "mismatches": [repr(x)[:400] for x in dbad[:10]]}, indent=1))
        run.undecided.append("the cy2py text of downsampling.pyx and the compiled extension module disagree "
                             f"({len(dbad)} inputs, see {fn.name}): the proof does not cover the running code")
