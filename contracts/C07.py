"""C07 — basin-provided features equal the origin's data for the mapped events."""
import numpy as np
import z3

from pyvc import h5model, npmodel, models   # noqa: F401
from pyvc.contract import Contract
from pyvc.engine import LoopSpec, NS
from pyvc.h5model import new_group, new_dataset, new_attrs
from pyvc.models import where_idx
from pyvc.sym import SArr, SObj, SInt, SOpaque, And, Or, Not, Implies, Z, to_z3, wrap
from contracts.common_writer import StoreFeatureCallee

FB = "dclab/rtdc_dataset/feat_basin.py"
FBMOD = "dclab.rtdc_dataset.feat_basin"
WRITER = "dclab/rtdc_dataset/writer.py"
WMOD = "dclab.rtdc_dataset.writer"


class OriginFeat(Contract):
    """feat_obj[i] / feat_obj[:] of the origin's feature object: the origin's data"""
    trusted = True

    def __init__(self, name):
        self.name = name
        super().__init__()

    def __call__(self, interp, fo, key):
        return models.arr_getitem(interp, fo.fields["_data"], key)


class ProxyGetitem(Contract):
    """BasinProxyFeature[idx] == origin[basinmap[idx]] for an integer (also negative),
    a slice, [:], an index array and a boolean mask; maps may repeat or permute
    origin events (no monotonicity is assumed)."""
    path = FB
    module = FBMOD
    qualname = "BasinProxyFeature.__getitem__"
    classes = {"BasinProxyFeature": (FB, "BasinProxyFeature")}
    class_modules = {"BasinProxyFeature": FBMOD}
    inline = {"BasinProxyFeature.__array__"}
    params = ("self", "index")

    def __init__(self, scalar, access):
        self.scalar, self.access = scalar, access
        self.name = f"BasinProxyFeature.__getitem__[{'scalar' if scalar else 'image-like'}, {access}]"
        super().__init__()
        self.callees = {"OriginFeature.__getitem__": OriginFeat("OriginFeature.__getitem__")}
        self.loops = {"(ii, idx) in enumerate(indices)": LoopSpec(inv=self.inv, modifies=lambda ctx, v: [v.out_arr])}

    def inputs(self, ctx):
        M = ctx.int("N_origin", lo=0, inp=True)
        kind = "F" if self.scalar else "elem"
        data = ctx.arr("origin", kind, n=M.e, inp=True, dtype=np.dtype("float64" if self.scalar else "uint8"))
        data.item_shape = () if self.scalar else (ctx.int("h", lo=1), ctx.int("w", lo=1))
        bm = ctx.arr("basinmap", "int", inp=True, dtype=np.dtype("uint64"))
        k = z3.Int("k!rq")
        ctx.assume(z3.ForAll([k], z3.Implies(z3.And(k >= 0, k < bm.n), z3.And(bm.sel(k) >= 0, bm.sel(k) < M.e))))
        fo = ctx.obj("OriginFeature", {"_data": data, "shape": (wrap(M.e),) + tuple(data.item_shape),
                                       "dtype": data.dtype}, name="feat_obj")
        fo.closed = True
        if self.access == "int":
            idx = ctx.int("index", inp=True)
            ctx.assume(z3.And(idx.e >= -bm.n, idx.e < bm.n))
        elif self.access == "slice":
            lo, hi = ctx.int("lo", inp=True), ctx.int("hi", inp=True)
            ctx.assume(z3.And(0 <= lo.e, lo.e <= hi.e, hi.e <= bm.n))
            idx = slice(lo, hi)
        elif self.access == "all":
            idx = slice(None)
        elif self.access == "array":
            idx = ctx.arr("index", "int", inp=True)
            ctx.assume(z3.ForAll([k], z3.Implies(z3.And(k >= 0, k < idx.n),
                                                 z3.And(idx.sel(k) >= 0, idx.sel(k) < bm.n))))
        else:
            idx = ctx.arr("index", "bool", n=bm.n, inp=True)
        self._g = NS(dict(data=data, bm=SArr(bm.n, bm.a, "int"), idx=idx))
        self_ = ctx.obj("BasinProxyFeature", {"feat_obj": fo, "basinmap": bm, "_cache": None,
                                              "is_scalar": self.scalar}, name="self")
        return {"self": self_, "index": idx}

    def positions(self, ctx):
        """(count, position k -> index into basinmap) of the events addressed by the index"""
        g = self._g
        if self.access == "slice":
            return g.idx.stop.e - g.idx.start.e, lambda k: g.idx.start.e + k
        if self.access == "all":
            return g.bm.n, lambda k: k
        if self.access == "array":
            return g.idx.n, lambda k: g.idx.sel(k)
        fi = NS({"ctx": ctx, "heap_write": lambda o: None})
        S = where_idx(fi, g.idx)
        return S.n, lambda k: S.sel(k)

    def inv(self, ctx, v):
        g = self._g
        n, pos = self.positions(ctx)
        out = v.out_arr
        j = z3.Int("j!inv")
        return [("the output has one slot per addressed event", out.n == n),
                ("slots filled so far hold the origin events the map points to",
                 z3.ForAll([j], z3.Implies(z3.And(j >= 0, j < v.it), out.sel(j) == g.data.sel(g.bm.sel(pos(j))))))]

    def ensures(self, ctx, old, a, result):
        g = self._g
        if self.access == "int":
            i = z3.If(g.idx.e < 0, g.idx.e + g.bm.n, g.idx.e)
            val = result.e if isinstance(result, (SOpaque,)) else to_z3(result)
            return [("the origin event the map points to", val == g.data.sel(g.bm.sel(i)))]
        if not isinstance(result, SArr):
            return [("returns an array of events", z3.BoolVal(False))]
        n, pos = self.positions(ctx)
        j = z3.Int("j!p")
        return [("one event per addressed position", result.n == n),
                ("event j is the origin event basinmap[position j]",
                 z3.ForAll([j], z3.Implies(z3.And(j >= 0, j < n), result.sel(j) == g.data.sel(g.bm.sel(pos(j))))))]


_prev_empty = models._MODELS[np.empty]


def _np_empty_F(interp, shape, dtype=float, **kw):
    """np.empty of a float array in units that keep float data in the datatype F (finite | NaN | +-Inf)"""
    if getattr(getattr(interp.cur_frame, "unit", None), "float_arrays_F7", False) \
            and (dtype is float or dtype == np.dtype("float64")):
        n = shape[0] if isinstance(shape, tuple) else shape
        r = interp.ctx.arr("empty", "F", n=to_z3(n), dtype=np.dtype("float64"))
        r.item_shape = ()
        return r
    return _prev_empty(interp, shape, dtype=dtype, **kw)


models._MODELS[np.empty] = _np_empty_F


class ProxyArray(ProxyGetitem):
    float_arrays_F7 = True

    """BasinProxyFeature.__array__(dtype) of a scalar feature -- representation invariant of the proxy: `_cache` is
    None or holds exactly origin[basinmap] (the origin's values, whatever conversion a caller asked for).  The
    call keeps the invariant, and without a requested dtype it returns origin[basinmap]."""
    qualname = "BasinProxyFeature.__array__"
    params = ("self", "dtype")
    inline = set()

    def __init__(self, dtype, cached):
        ProxyGetitem.__init__(self, True, "all")
        self.dtype, self.cached = dtype, cached
        self.name = (f"BasinProxyFeature.__array__[scalar, dtype={dtype}, "
                     f"{'cache filled' if cached else 'cache empty'}]")
        self.loops = {"(ii, idx) in enumerate(self.basinmap)": LoopSpec(inv=self.inv_arr, modifies=lambda ctx, v: [v.out_arr])}

    def inv_arr(self, ctx, v):
        g = self._g
        out = v.out_arr
        j = z3.Int("j!ia")
        return [("the output has one slot per event of the map", out.n == g.bm.n),
                ("slots filled so far hold the origin events the map points to",
                 z3.ForAll([j], z3.Implies(z3.And(j >= 0, j < v.it), out.sel(j) == g.data.sel(g.bm.sel(j)))))]

    def mapped(self, ctx, arr):
        g = self._g
        j = z3.Int("j!c")
        return z3.And(arr.n == g.bm.n, z3.ForAll([j], z3.Implies(z3.And(j >= 0, j < g.bm.n),
                                                                 arr.sel(j) == g.data.sel(g.bm.sel(j)))))

    def inputs(self, ctx):
        d = ProxyGetitem.inputs(self, ctx)
        self_ = d["self"]
        if self.cached:
            c = ctx.arr("cache", "F", n=self._g.bm.n, dtype=np.dtype("float64"))
            c.item_shape = ()
            c.writeable = False
            ctx.assume(self.mapped(ctx, c))
            self_.fields["_cache"] = c
        self._self = self_
        return {"self": self_, "dtype": None if self.dtype == "None" else np.dtype(self.dtype)}

    def ensures(self, ctx, old, a, result):
        c = self._self.fields["_cache"]
        posts = [("the cache is empty or holds exactly origin[basinmap] (values of the origin, unconverted)",
                  z3.BoolVal(True) if c is None else (self.mapped(ctx, c) if isinstance(c, SArr) and c.kind == "F"
                                                       else z3.BoolVal(False)))]
        if self.dtype == "None":
            posts.append(("without a requested dtype the result is origin[basinmap]",
                          self.mapped(ctx, result) if isinstance(result, SArr) else z3.BoolVal(False)))
        return posts


class ProxyShape(ProxyGetitem):
    """BasinProxyFeature.shape: the shape of the *mapped* data -- as many events as the map has entries, the
    event shape of the origin (code that trusts the shape, such as the unfiltered export, stores that many events)"""
    qualname = "BasinProxyFeature.shape"
    params = ("self",)
    inline = set()

    def __init__(self, scalar):
        ProxyGetitem.__init__(self, scalar, "all")
        self.name = f"BasinProxyFeature.shape[{'scalar' if scalar else 'image-like'}]"

    def inputs(self, ctx):
        d = ProxyGetitem.inputs(self, ctx)
        return {"self": d["self"]}

    def ensures(self, ctx, old, a, result):
        g = self._g
        if not isinstance(result, tuple) or not result:
            return [("the shape is a tuple", z3.BoolVal(False))]
        rest = tuple(g.data.item_shape)
        return [("the first axis counts the events of the map", to_z3(result[0]) == g.bm.n),
                ("the other axes are those of one event of the origin",
                 z3.BoolVal(len(result) == 1 + len(rest)) if len(result) != 1 + len(rest)
                 else z3.And(*[to_z3(x) == to_z3(y) for x, y in zip(result[1:], rest)]) if rest else z3.BoolVal(True))]


UNITS = [ProxyGetitem(s, a) for s in (True, False) for a in ("int", "slice", "all", "array", "mask")]
UNITS += [ProxyShape(True), ProxyShape(False)]
UNITS += [ProxyArray(dt, False) for dt in ("None", "int64", "float32")] + [ProxyArray("None", True)]
TRUSTED = [OriginFeat("OriginFeature.__getitem__")]
TRUSTED_BASE = ["numpy fancy / boolean indexing (N-FANCY, N-WHERE, N-MASK)", "opaque event payloads",
                "np.empty returns an array of the requested length with unspecified content"]
ASSUMPTIONS = ["JSON round trip of basin definitions and the opening of basin files are outside these contracts"]


# ---------------------------------------------------------------- store_basin: map allocation
class WriteTextRecord(Contract):
    name = "RTDCWriter.write_text"
    trusted = True

    def __call__(self, interp, hw, group, name, lines):
        hw.fields.setdefault("_written_basins", []).append((name, lines))
        return None


class HashLines(Contract):
    name = "hashobj"
    trusted = True

    def __call__(self, interp, obj):
        return "key-" + str(abs(hash(tuple(obj))) % 100000)


class StoreBasinMap(Contract):
    """store_basin(..., basin_map=m): the stored definition names a mapping feature
    basinmapK whose content equals m; an existing mapping feature is reused only if
    its content equals m and is never overwritten; the first free slot is taken
    otherwise."""
    path = WRITER
    module = WMOD
    name = "RTDCWriter.store_basin[mapped, file]"
    qualname = "RTDCWriter.store_basin"
    classes = {"RTDCWriter": (WRITER, "RTDCWriter")}
    class_modules = {"RTDCWriter": WMOD}
    native = {"feature_exists"}
    params = ("self", "basin_name", "basin_type", "basin_format", "basin_locs", "basin_descr", "basin_feats",
              "basin_map", "internal_data", "verify")

    def __init__(self):
        super().__init__()
        self.callees = {"RTDCWriter.store_feature": StoreFeatureCallee(with_summaries=False),
                        "RTDCWriter.write_text": WriteTextRecord(), "hashobj": HashLines()}

    def inputs(self, ctx):
        n = ctx.int("n_events", lo=1, inp=True)
        m = ctx.arr("basin_map", "int", n=n.e, inp=True, dtype=np.dtype("uint64"))
        m.item_shape = ()
        olds, flags, members = {}, {}, {}
        for nm in ("basinmap0", "basinmap1"):
            olds[nm] = ctx.arr("old_" + nm, "int", n=n.e, inp=True, dtype=np.dtype("uint64"))
            olds[nm].item_shape = ()
            flags[nm] = ctx.bool("has_" + nm, inp=True)
        ctx.assume(z3.Implies(to_z3(flags["basinmap1"], "bool"), to_z3(flags["basinmap0"], "bool")))
        dsets = {nm: new_dataset(ctx, olds[nm], name="/events/" + nm, dtype=np.dtype("uint64")) for nm in olds}
        events = new_group(ctx, maybe={nm: (flags[nm], dsets[nm]) for nm in olds}, name="/events")
        h5 = new_group(ctx, members={"events": events, "basins": new_group(ctx, name="/basins")}, name="/")
        self_ = ctx.obj("RTDCWriter", {"h5file": h5, "mode": "append", "path": __import__("pathlib").Path("/out/f.rtdc")},
                        name="self")
        self._g = NS(dict(n=n, m=SArr(m.n, m.a, "int"), olds={k: SArr(v.n, v.a, "int") for k, v in olds.items()},
                          flags=flags, events=events, hw=self_))
        return {"self": self_, "basin_name": "origin", "basin_type": "file", "basin_format": "hdf5",
                "basin_locs": ["/data/origin.rtdc", "origin.rtdc"], "basin_descr": "d", "basin_feats": None,
                "basin_map": m, "internal_data": None, "verify": False}

    def ensures(self, ctx, old, a, result):
        import json
        g = self._g
        wb = g.hw.fields.get("_written_basins", [])
        if len(wb) != 1:
            return [("exactly one basin definition is written", z3.BoolVal(False))]
        key, lines = wb[0]
        d = json.loads("\n".join(lines))
        name = d.get("mapping")
        ev = g.events
        k = z3.Int("k!p")
        same = lambda x, y: z3.And(x.n == y.n, z3.ForAll([k], z3.Implies(z3.And(k >= 0, k < x.n), x.sel(k) == y.sel(k))))   # noqa
        posts = [("the definition is stored under the returned key with type/format/paths as given",
                  z3.BoolVal(result == key and d.get("type") == "file" and d.get("format") == "hdf5"
                             and d.get("paths") == ["/data/origin.rtdc", "origin.rtdc"] and d.get("features") is None))]
        tgt = ev.fields["members"].get(name) or (ev.fields["maybe"].get(name) or (None, None))[1]
        if tgt is None:
            posts.append(("the named mapping feature exists", z3.BoolVal(False)))
        else:
            posts.append(("the named mapping feature holds exactly the given map", same(tgt.fields["content"], g.m)))
        for nm in ("basinmap0", "basinmap1"):
            cur = ev.fields["members"].get(nm) or (ev.fields["maybe"].get(nm) or (None, None))[1]
            if cur is not None:
                posts.append((f"an existing {nm} is never overwritten",
                              z3.Implies(to_z3(g.flags[nm], "bool"), same(cur.fields["content"], g.olds[nm]))))
        posts.append(("slots are taken in order: a later slot only if the earlier ones hold other maps",
                      z3.BoolVal(name in ("basinmap0", "basinmap1", "basinmap2"))))
        return posts


UNITS += [StoreBasinMap()]


# ---------------------------------------------------------------- Export.hdf5: basins of the export
import contracts.C02 as C02   # noqa: E402

root_of = z3.Function("root_of", z3.IntSort(), z3.IntSort())


class C2R(Contract):
    """map_indices_child2root (C04): result[k] == root_of(child_indices[k])"""
    name = "map_indices_child2root"

    def __call__(self, interp, child=None, child_indices=None):
        ci = npmodel.as_arr(interp, child_indices)
        r = models.arr_new(interp, ci.n, lambda k: root_of(ci.sel(k)), "int")
        r.item_shape = ()
        return r


parent_of7 = z3.Function("parent_of", z3.IntSort(), z3.IntSort())


class C2P(Contract):
    """map_indices_child2parent (C04): result[k] == parent_of(child_indices[k]) -- indices in the *parent*, which is
    the root only for a child of depth 1"""
    name = "map_indices_child2parent"

    def __call__(self, interp, child=None, child_indices=None):
        ci = npmodel.as_arr(interp, child_indices)
        r = models.arr_new(interp, ci.n, lambda k: parent_of7(ci.sel(k)), "int")
        r.item_shape = ()
        return r


class RootParent(Contract):
    name = "DS.get_root_parent"
    trusted = True

    def __call__(self, interp, ds):
        return ds.fields["_root"]


class AsDict(Contract):
    name = "BasinObj.as_dict"
    trusted = True

    def __call__(self, interp, b):
        return dict(b.fields["_dict"])


class ExportBasins(C02.ExportHdf5):
    """Export.hdf5(..., basins=True): the exported file refers to its source as a basin
    whose map sends exported event j to the source event it came from:
    where(filter)[j] for a file source, root_of(where(filter)[j]) for a hierarchy
    child (basin = the root file), orig_map[where(filter)[j]] for a basin the source
    itself already had; a local (hdf5) origin is stored as type 'file' with the
    absolute path and the bare file name (moved-together lookup)."""

    def __init__(self, source, filtered):
        self.source = source
        C02.ExportHdf5.__init__(self, "hierarchy" if source.startswith("hierarchy") else "hdf5", filtered)
        self.name = f"Export.hdf5[basins, source {source}, {'filtered' if filtered else 'unfiltered'}]"
        self.callees.update({"map_indices_child2root": C2R(), "map_indices_child2parent": C2P(),
                             "DS.get_root_parent": RootParent(),
                             "BasinObj.as_dict": AsDict()})

    def inputs(self, ctx):
        import pathlib
        args = C02.ExportHdf5.inputs(self, ctx)
        ds = self._g.ds
        args["basins"] = True
        g = self._g
        orig_map = ctx.arr("orig_basin_map", "int", n=g.N.e, inp=True, dtype=np.dtype("uint64"))
        orig_map.item_shape = ()
        g.orig_map = SArr(orig_map.n, orig_map.a, "int")
        ds.fields["basins"] = []
        if self.source == "hdf5+mapped basin":
            b = ctx.obj("BasinObj", {"_dict": {"basin_name": "raw", "basin_type": "file", "basin_format": "hdf5",
                                               "basin_locs": ["/data/raw.rtdc"], "basin_descr": None,
                                               "basin_feats": ["image"], "basin_map": orig_map}})
            ds.fields["basins"] = [b]
        if self.source.startswith("hierarchy"):
            root = ctx.obj("DS", {"format": "hdf5", "path": pathlib.Path("/data/root.rtdc")}, name="root")
            ds.fields["_root"] = root
        if self.source in ("hierarchy+same basin", "hierarchy+mapped basin"):
            # a basin of the root parent (RTDC_Hierarchy.basins hands out the root's basins): it
            # enumerates the events of the root, not those of the child
            R = ctx.int("N_root", lo=0, inp=True)
            up_map = ctx.arr("root_basin_map", "int", n=R.e, inp=True, dtype=np.dtype("uint64"))
            up_map.item_shape = ()
            g.up_map = SArr(up_map.n, up_map.a, "int")
            # root indices of child events are events of the root
            kk = z3.Int("k!r")
            ctx.assume(z3.ForAll([kk], z3.Implies(z3.And(kk >= 0, kk < g.N.e), z3.And(root_of(kk) >= 0, root_of(kk) < R.e))))
            dct = {"basin_name": "raw", "basin_type": "file", "basin_format": "hdf5", "basin_locs": ["/data/raw.rtdc"],
                   "basin_descr": None, "basin_feats": ["image"]}
            if self.source == "hierarchy+mapped basin":
                dct["basin_map"] = up_map
            ds.fields["basins"] = [ctx.obj("BasinObj", {"_dict": dct})]
        return args

    def ensures(self, ctx, old, a, result):
        posts = C02.ExportHdf5.ensures(self, ctx, old, a, result)
        g = self._g
        hw = getattr(self, "_hw", None)
        recs = hw.fields["_basins"] if hw is not None else []
        fi = NS({"ctx": ctx, "heap_write": lambda o: None})
        mask = models.arr_new(fi, g.N.e, lambda k: self.sel_mask(ctx, k), "bool")
        mask = SArr(mask.n, mask.a, "bool")
        S = where_idx(fi, mask)
        for fa in self.__dict__.get("_filtarrs", []):
            ctx.assume(models.where_ext(fi, fa, mask))
        if self.filtered:
            ctx.assume(models.where_ext(fi, g.filt, mask))
        j = z3.Int("j!b")
        want_n = 2 if "+" in self.source else 1
        posts.append(("one basin definition per basin of the source plus one for the source itself",
                      z3.BoolVal(len(recs) == want_n and all(r.get("verify") is False for r in recs))))
        if len(recs) != want_n:
            return posts
        src = recs[-1]
        where = "/data/root.rtdc" if self.source.startswith("hierarchy") else "/data/src.rtdc"
        posts.append(("the source (root file for a hierarchy child) is a local 'file' basin: absolute path + bare file name",
                      z3.BoolVal(src.get("basin_type") == "file" and src.get("basin_format") == "hdf5"
                                 and [str(p) for p in src.get("basin_locs", [])] == [where, where.split("/")[-1]])))

        def map_is(rec, fn, what):
            bm = rec.get("basin_map")
            if not isinstance(bm, SArr):
                return (what, z3.BoolVal(False))
            return (what, z3.And(bm.n == S.n, z3.ForAll([j], z3.Implies(z3.And(j >= 0, j < S.n),
                                                                        bm.sel(j) == fn(S.sel(j))))))
        if self.source.startswith("hierarchy"):
            if self.filtered:
                posts.append(map_is(src, lambda t: root_of(t), "map: exported event j -> root event of the j-th selected child event"))
            else:
                posts.append(map_is(src, lambda t: root_of(t), "map: exported event j -> root event of child event j"))
        elif self.filtered:
            posts.append(map_is(src, lambda t: t, "map: exported event j -> j-th selected source event"))
        else:
            posts.append(("an unfiltered export of a file refers to it with the identity mapping",
                          z3.BoolVal(src.get("basin_map") is None)))
        if self.source == "hierarchy+same basin":
            posts.append(map_is(recs[0], lambda t: root_of(t),
                                "basin of the root parent: exported event j -> root event of the j-th exported child event"))
        if self.source == "hierarchy+mapped basin":
            posts.append(map_is(recs[0], lambda t: g.up_map.sel(root_of(t)),
                                "basin of the root parent: new map == the root's map composed with the root indices of "
                                "the exported child events"))
        if self.source.startswith("hierarchy+"):
            posts.append(("basin of the root parent keeps its locations and features",
                          z3.BoolVal(recs[0].get("basin_locs") == ["/data/raw.rtdc"] and recs[0].get("basin_feats") == ["image"])))
        if self.source == "hdf5+mapped basin":
            b0 = recs[0]
            if self.filtered:
                posts.append(map_is(b0, lambda t: g.orig_map.sel(t),
                                    "basin of the source: new map == old map composed with the selection"))
            else:
                posts.append(("basin of the source: map unchanged for an unfiltered export",
                              z3.BoolVal(b0.get("basin_map") is not None
                                         and getattr(b0.get("basin_map"), "uid", None) is not None)))
            posts.append(("basin of the source keeps its locations and features",
                          z3.BoolVal(b0.get("basin_locs") == ["/data/raw.rtdc"] and b0.get("basin_feats") == ["image"])))
        return posts


UNITS += [ExportBasins(s, f) for s in ("hdf5", "hdf5+mapped basin", "hierarchy", "hierarchy+same basin",
                                        "hierarchy+mapped basin") for f in (True, False)]
TRUSTED += [RootParent(), AsDict()]


# ---------------------------------------------------------------- replay on the real code (end to end)
def _replay_proxy(unit_name, inp):
    import numpy as np
    from dclab.rtdc_dataset.feat_basin import BasinProxyFeature
    rng = np.random.RandomState(int(inp.get("seed", 1)))
    m = 9
    scalar = "[scalar" in unit_name
    origin = rng.uniform(0, 1, m) if scalar else rng.randint(0, 255, size=(m, 3, 4)).astype(np.uint8)
    for bm in (np.array([5, 2, 2, 8, 0, 7, 1], dtype=np.uint64), np.arange(m, dtype=np.uint64)[::-1].copy()):
        accesses = [("[3]", 3), ("[-1]", -1), ("[1:5]", slice(1, 5)), ("[:]", slice(None)),
                    ("[[4,0,2]]", np.array([4, 0, 2])), ("[mask]", np.arange(len(bm)) % 2 == 0)]
        for nm, key in accesses:
            pf = BasinProxyFeature(feat_obj=origin, basinmap=bm)
            got = np.asarray(pf[key])
            want = origin[bm.astype(int)][key]
            if got.shape != np.asarray(want).shape or not np.array_equal(got, want):
                return {"failed": True, "detail": f"BasinProxyFeature{nm} with basinmap {bm.tolist()} is not "
                                                  f"origin[basinmap]{nm} ({'scalar' if scalar else 'image-like'} feature)"}
    if scalar:
        # a typed conversion must not change what later reads return
        bm = np.array([5, 2, 2, 8, 0, 7, 1], dtype=np.uint64)
        for dt in (int, np.float32):
            pf = BasinProxyFeature(feat_obj=origin * 100, basinmap=bm)
            np.asarray(pf, dtype=dt)
            want = (origin * 100)[bm.astype(int)]
            for nm, got in (("np.asarray(proxy)", np.asarray(pf)), ("proxy[:]", np.asarray(pf[:])), ("proxy[2]", np.asarray(pf[2]))):
                w_ = want if nm != "proxy[2]" else want[2]
                if not np.array_equal(got, w_):
                    return {"failed": True, "detail": f"after np.asarray(proxy, dtype={np.dtype(dt).name}), {nm} returns "
                                                      f"{np.asarray(got).ravel()[:3].tolist()} instead of the origin's "
                                                      f"{np.asarray(w_).ravel()[:3].tolist()}"}
    return {"failed": False, "detail": "proxy access equals origin[basinmap[idx]]"}


def _replay_store_basin(inp):
    import pathlib, tempfile, warnings
    import h5py, numpy as np
    from dclab.rtdc_dataset.writer import RTDCWriter
    with tempfile.TemporaryDirectory(prefix="c07_") as td, warnings.catch_warnings():
        warnings.simplefilter("ignore")
        p = pathlib.Path(td) / "f.rtdc"
        base = int(inp.get("base", 200000))
        m1 = np.arange(6, dtype=np.uint64) + base
        m2 = m1 + 1
        with RTDCWriter(p) as hw:
            hw.store_feature("deform", np.linspace(0.01, 0.1, 6))
            hw.store_basin(basin_name="a", basin_type="file", basin_format="hdf5", basin_locs=["/x/a.rtdc"],
                           basin_map=m1, verify=False)
            hw.store_basin(basin_name="b", basin_type="file", basin_format="hdf5", basin_locs=["/x/b.rtdc"],
                           basin_map=m2, verify=False)
        import json
        with h5py.File(p) as h5:
            defs = [json.loads("\n".join(x.decode() for x in h5["basins"][k][:])) for k in h5["basins"]]
            for d in defs:
                want = m1 if d["name"] == "a" else m2
                if not np.array_equal(h5["events"][d["mapping"]][:], want):
                    return {"failed": True, "detail": f"basin {d['name']} refers to {d['mapping']} whose content "
                                                      f"{h5['events'][d['mapping']][:].tolist()} is not its map {want.tolist()}"}
    return {"failed": False, "detail": "each basin definition names a mapping feature holding its map"}


def replay(unit_name, inp, obligation=""):
    if unit_name.startswith("BasinProxyFeature"):
        return _replay_proxy(unit_name, inp)
    if unit_name.startswith("RTDCWriter.store_basin"):
        return _replay_store_basin(inp)
    import pathlib, shutil, tempfile, warnings
    import h5py, numpy as np
    import dclab
    import dclab.rtdc_dataset.writer as w
    import dclab.rtdc_dataset.export as e
    if "hierarchy+" in unit_name:
        # the child of a file that has basins itself (second export of the chain)
        inp = dict(inp, hierarchy=True, hierarchy_at=1, depth=max(2, int(inp.get("depth", 2))),
                   grandchild=inp.get("grandchild", int(inp.get("seed", 1)) % 2 == 0))
    n = int(inp.get("n", 12))
    seed = int(inp.get("seed", 1))
    rng = np.random.RandomState(seed)
    old_w, old_e = w.version, e.version
    w.version = e.version = "0.60.0"
    try:
        with tempfile.TemporaryDirectory(prefix="c07_") as td, warnings.catch_warnings():
            warnings.simplefilter("ignore")
            td = pathlib.Path(td)
            (td / "a").mkdir()
            data = {"deform": rng.uniform(0.01, 0.2, n), "area_um": rng.uniform(50, 150, n),
                    "image": rng.randint(1, 200, size=(n, 5, 6)).astype(np.uint8)}
            src = dclab.new_dataset(data)
            src.config["experiment"]["run identifier"] = "run-0001"
            src.config["experiment"]["sample"] = "s"
            p0 = td / "a" / "origin.rtdc"
            src.export.hdf5(p0, features=["deform", "area_um", "image"], filtered=False)
            ids = np.arange(n)
            cur = p0
            for depth in range(int(inp.get("depth", 2))):
                with dclab.new_dataset(cur) as ds:
                    filt = rng.rand(len(ds)) > 0.35
                    if not filt.any():
                        filt[0] = True
                    use_child = bool(inp.get("hierarchy")) and depth == int(inp.get("hierarchy_at", 0))
                    if use_child:
                        ds.filter.manual[:] = filt
                        ds.apply_filter()
                        ch = dclab.new_dataset(ds)
                        filt2 = rng.rand(len(ch)) > 0.3
                        if not filt2.any():
                            filt2[0] = True
                        ch.filter.manual[:] = filt2
                        ch.apply_filter()
                        ids = ids[filt][filt2]
                        exp_ds = ch
                        if inp.get("grandchild") and len(ids) > 1:
                            # export from a child of depth 2: its root indices are not its parent's indices
                            ch2 = dclab.new_dataset(ch)
                            filt3 = rng.rand(len(ch2)) > 0.3
                            if not filt3.any():
                                filt3[0] = True
                            ch2.filter.manual[:] = filt3
                            ch2.apply_filter()
                            ids = ids[filt3]
                            exp_ds = ch2
                    else:
                        ds.filter.manual[:] = filt
                        ds.apply_filter()
                        ids = ids[filt]
                        exp_ds = ds
                    nxt = td / "a" / f"exp{depth}.rtdc"
                    try:
                        exp_ds.export.hdf5(nxt, features=["deform"], filtered=True, basins=True)
                    except Exception as ex:
                        return {"failed": True, "detail": f"export {depth + 1} of the chain (from a "
                                                          f"{'hierarchy child' if use_child else 'file'}, with basins) raises "
                                                          f"{type(ex).__name__}: {str(ex)[:120]}"}
                cur = nxt
            if inp.get("move"):
                shutil.move(str(td / "a"), str(td / "b"))
                cur = td / "b" / cur.name
            with dclab.new_dataset(cur) as ds:
                if "image" not in ds or "area_um" not in ds:
                    return {"failed": True, "detail": f"basin features are not available in {cur.name} "
                                                      f"(depth {inp.get('depth', 2)}, moved {bool(inp.get('move'))})"}
                if len(ds) != len(ids):
                    return {"failed": True, "detail": "event count of the export differs from the selection"}
                if not np.allclose(ds["area_um"][:], data["area_um"][ids]):
                    return {"failed": True, "detail": f"basin feature area_um differs from the origin at the mapped events {ids.tolist()}"}
                for acc, got, want in (("[0]", ds["image"][0], data["image"][ids[0]]),
                                       ("[-1]", ds["image"][-1], data["image"][ids[-1]]),
                                       ("[:]", ds["image"][:], data["image"][ids]),
                                       ("[1:3]", ds["image"][1:3], data["image"][ids[1:3]])):
                    if not np.array_equal(np.asarray(got), want):
                        return {"failed": True, "detail": f"basin feature image{acc} differs from the origin's "
                                                          f"events {ids.tolist()}"}
                if not np.allclose(ds["deform"][:], data["deform"][ids]):
                    return {"failed": True, "detail": "stored feature deform differs"}
        return {"failed": False, "detail": "basin features equal the origin at the mapped events"}
    finally:
        w.version, e.version = old_w, old_e


def bounded_inputs(unit_name, rng):
    if unit_name.startswith(("BasinProxyFeature", "RTDCWriter.store_basin")):
        yield {"seed": 1}
        yield {"seed": 2, "base": 5000000}
        return
    for depth in (1, 2, 3):
        for seed in (1, 2, 3):
            for hier in (False, True):
                for move in (False, True):
                    yield {"n": 14, "seed": seed, "depth": depth, "hierarchy": hier, "move": move}
                    if hier and depth > 1:
                        yield {"n": 14, "seed": seed, "depth": depth, "hierarchy": hier, "move": move, "hierarchy_at": 1}
                        yield {"n": 20, "seed": seed, "depth": depth, "hierarchy": hier, "move": move, "hierarchy_at": 1,
                               "grandchild": True}
