"""Callee contracts shared by several properties (the text of the ensures
clauses mirrors the postconditions verified for RTDCWriter.write_ndarray in
contracts/C01.py (n-D) and contracts/C20.py (1-D))."""
import numpy as np
import z3

from pyvc import h5model, npmodel, models
from pyvc.contract import Contract
from pyvc.h5model import new_attrs, new_dataset, new_group, _grp_lookup
from pyvc.sym import SArr, SF, SInt, SObj, F, Z, to_z3, wrap

WRITER = "dclab/rtdc_dataset/writer.py"
WMOD = "dclab.rtdc_dataset.writer"


class WriteNdarrayCallee(Contract):
    """RTDCWriter.write_ndarray(group, name, data, dtype): raises ValueError for
    empty data; otherwise group[name] exists afterwards with
    content' == content ++ data (content empty if the dataset is new), and for
    1-D numeric data the attributes min/max/mean hold the NaN-ignoring summaries
    of content' (SInv).  Verified in C01 (n-D) and C20 (1-D)."""
    name = "RTDCWriter.write_ndarray"
    qualname = "RTDCWriter.write_ndarray"
    params = ("self", "group", "name", "data", "dtype")
    with_summaries = True

    def __init__(self, with_summaries=True, **kw):
        super().__init__(**kw)
        self.with_summaries = with_summaries

    def __call__(self, interp, self_, group=None, name=None, data=None, dtype=None):
        eng = interp.ctx.engine
        from pyvc.engine import PyRaise, Unsupported
        ctx = interp.ctx
        arr = npmodel.as_arr(interp, data)
        if not ctx.decide(wrap(arr.n > 0)):
            raise PyRaise(ValueError, ("Empty data object",))
        found, dset = _grp_lookup(interp, group, name)
        k = z3.Int("k!wn")
        if found:
            old = dset.fields["content"]
            if old.kind != arr.kind:
                raise Unsupported(f"write_ndarray contract: kind {arr.kind} appended to {old.kind}")
            interp.heap_write(dset)
            off = old.n
            nc = ctx.arr("content'", old.kind, n=z3.simplify(old.n + arr.n), dtype=old.dtype)
            nc.item_shape = getattr(old, "item_shape", ())
            ctx.assume(z3.ForAll([k], z3.Implies(z3.And(k >= 0, k < off), nc.sel(k) == old.sel(k))))
            dset.fields["content"] = nc
        else:
            interp.heap_write(group)
            off = Z(0)
            nc = ctx.arr("content'", arr.kind, n=arr.n, dtype=dtype or arr.dtype)
            nc.item_shape = getattr(arr, "item_shape", ())
            c0 = ctx.int("chunk0", lo=10)
            dset = new_dataset(ctx, nc, chunks=(c0,) + tuple(nc.item_shape), dtype=dtype or arr.dtype,
                               name=f"{group.fields['name']}/{name}", item_shape=nc.item_shape)
            group.fields["maybe"].pop(name, None)
            group.fields["members"][name] = dset
            old = None
        ctx.assume(z3.ForAll([k], z3.Implies(z3.And(k >= 0, k < arr.n),
                                             nc.sel(off + k) == arr.sel(k))))
        # the same fact indexed by the absolute position (friendlier to E-matching)
        j = z3.Int("j!wn")
        ctx.assume(z3.ForAll([j], z3.Implies(z3.And(j >= off, j < off + arr.n),
                                             nc.sel(j) == arr.sel(j - off))))
        if self.with_summaries and not nc.item_shape and nc.kind in ("F", "int", "real"):
            # summaries (SInv), see C20
            s = npmodel.summary(ctx, nc)
            at = dset.fields["attrs"]
            interp.heap_write(at)
            mean = ctx.const("mean'", F)
            ctx.assume(npmodel.is_nanmean(ctx, mean, nc))
            for key, v in (("min", s.mn), ("max", s.mx), ("mean", mean)):
                at.fields["maybe"].pop(key, None)
                at.fields["d"][key] = SF(v)
            if old is not None:
                npmodel.note_slice_write(interp, nc, old, off, nc.n, arr)
        return dset


class StoreFeatureCallee(Contract):
    """RTDCWriter.store_feature(feat, data) as verified in contracts/C01.py: the
    dataset events/<feat> grows by exactly the given events (replace mode: holds
    exactly them); "index" is enumerated by the writer, continuing the stored
    index; nothing else in the events group changes."""
    name = "RTDCWriter.store_feature"

    def __init__(self, with_summaries=True, **kw):
        super().__init__(**kw)
        self.with_summaries = with_summaries

    def __call__(self, interp, hw, feat=None, data=None, shape=None):
        from pyvc.engine import Unsupported
        ctx = interp.ctx
        if not isinstance(feat, str):
            raise Unsupported("store_feature with a symbolic feature name")
        events = h5model._grp_require(interp, hw.fields["h5file"], "events")
        if hw.fields.get("mode") == "replace":
            found, _ = _grp_lookup(interp, events, feat)
            if found:
                h5model._grp_delitem(interp, events, feat)
        wn = WriteNdarrayCallee(with_summaries=self.with_summaries)
        from pyvc.sym import SOpaque
        if feat == "trace":
            # {name: stack}: each named trace grows by the given events (C01 StoreFeatureTrace)
            tgrp = h5model._grp_require(interp, events, "trace")
            for tr_name, stack in data.items():
                wn(interp, hw, group=tgrp, name=tr_name, data=stack, dtype=None)
            return None
        if feat == "contour" and isinstance(data, SOpaque):
            # one contour: the ragged group grows by this entry (C01 write_ragged); the group is
            # represented by the sequence of its entries
            one = ctx.arr("one_contour", "elem", n=1)
            ctx.assume(one.sel(0) == data.e)
            data = one
        if feat == "index":
            arr = npmodel.as_arr(interp, data)
            found, ds0 = _grp_lookup(interp, events, "index")
            nev0 = ds0.fields["content"].n if found else Z(0)
            data = models.arr_new(interp, arr.n, lambda k: nev0 + 1 + k, "int")
        return wn(interp, hw, group=events, name=feat, data=data, dtype=None)
