"""C05 — Young's modulus: the clauses contracts can decide.

* scaling laws (features/emodulus/scale_linear.py): elementwise formulas and the
  in-place / copy frame of scale_emodulus, scale_area_um, scale_volume;
* pixelation correction (pxcorr.py): the correction for area is evaluated at
  area * (0.34/px)^2, the one for volume at volume * (0.34/px)^3 (np.exp is an
  uninterpreted function);
* frame and statelessness of get_emodulus and everything it calls inside the
  emodulus package (AST frame analysis): no memoisation, no module-level state, the
  caller's arrays and parameters are never rebound or written in place, every
  in-place operation targets an array that the function itself created.

The piecewise-linear interpolation itself is scipy's griddata (Qhull): not within
reach of a contract; the bounded layer compares the end-to-end result with a
direct evaluation and checks independence of events, of earlier calls and of
scalar / per-event temperature on sampled inputs.
"""
import ast
import json

import numpy as np
import z3

from pyvc import models, npmodel, h5model, source   # noqa: F401
from pyvc.contract import Contract
from pyvc.engine import LoopSpec, NS, PyRaise
from pyvc.sym import SArr, SObj, SReal, Z, to_z3, wrap

EMO = "dclab/features/emodulus/"
EXP = z3.Function("exp", z3.RealSort(), z3.RealSort())


@models.model(np.exp)
def _np_exp(interp, x, *a, **k):
    if isinstance(x, SArr) and x.kind == "real":
        models.axiom("N-EXP (np.exp acts elementwise as one real function)")
        return models.arr_new(interp, x.n, lambda k_: EXP(x.sel(k_)), "real")
    if isinstance(x, SReal):
        return wrap(EXP(x.e))
    from pyvc.engine import Unsupported
    raise Unsupported("np.exp of " + type(x).__name__)


class Scale(Contract):
    """scale_emodulus / scale_area_um / scale_volume: every entry is multiplied by
    the documented factor; with inplace=False the input array keeps its values and
    the result is a new array, with inplace=True the result is the input array."""
    path = EMO + "scale_linear.py"
    module = "dclab.features.emodulus.scale_linear"

    def __init__(self, which, inplace):
        self.which, self.inplace = which, inplace
        self.qualname = "scale_" + which
        self.name = f"scale_{which}[inplace={inplace}]"
        self.params = {"emodulus": ("emodulus", "channel_width_in", "channel_width_out", "flow_rate_in", "flow_rate_out",
                                    "viscosity_in", "viscosity_out", "inplace"),
                       "area_um": ("area_um", "channel_width_in", "channel_width_out", "inplace"),
                       "volume": ("volume", "channel_width_in", "channel_width_out", "inplace")}[which]
        super().__init__()

    def inputs(self, ctx):
        n = ctx.int("N", lo=0, inp=True)
        data = ctx.arr("data", "real", n=n.e, inp=True, dtype=np.dtype("float64"))
        self._data0 = SArr(data.n, data.a, "real")
        self._data = data
        pos = {}
        for nm in ("channel_width_in", "channel_width_out", "flow_rate_in", "flow_rate_out", "viscosity_in", "viscosity_out"):
            pos[nm] = ctx.real(nm, inp=True)
            ctx.assume(pos[nm].e > 0)
        self._p = pos
        d = {self.which: data, "channel_width_in": pos["channel_width_in"], "channel_width_out": pos["channel_width_out"],
             "inplace": self.inplace}
        if self.which == "emodulus":
            d.update({k: pos[k] for k in ("flow_rate_in", "flow_rate_out", "viscosity_in", "viscosity_out")})
        return d

    def factor(self):
        p = {k: v.e for k, v in self._p.items()}
        w = p["channel_width_out"] / p["channel_width_in"]
        if self.which == "area_um":
            return w * w
        if self.which == "volume":
            return w * w * w
        wi = p["channel_width_in"] / p["channel_width_out"]
        return (p["flow_rate_out"] / p["flow_rate_in"]) * (p["viscosity_out"] / p["viscosity_in"]) * wi * wi * wi

    def ensures(self, ctx, old, a, result):
        k = z3.Int("k!sc")
        f = self.factor()
        posts = [("every entry is the input entry times the documented factor "
                  + {"emodulus": "(Q_out/Q_in)(eta_out/eta_in)(w_in/w_out)^3", "area_um": "(w_out/w_in)^2",
                     "volume": "(w_out/w_in)^3"}[self.which],
                  z3.And(result.n == self._data0.n,
                         z3.ForAll([k], z3.Implies(z3.And(k >= 0, k < result.n),
                                                   result.sel(k) == self._data0.sel(k) * f))))]
        if self.inplace:
            posts.append(("inplace: the result is the input array", z3.BoolVal(result is self._data)))
        else:
            posts.append(("not inplace: the input array keeps its values",
                          z3.ForAll([k], z3.Implies(z3.And(k >= 0, k < self._data0.n),
                                                    self._data.sel(k) == self._data0.sel(k)))))
        return posts


class PxCorr(Contract):
    """corr_deform_with_area_um / corr_deform_with_volume(x, px_um): the correction is
    a function of x * (0.34 / px_um)^d with d = 2 for an area and d = 3 for a volume
    (the correction was derived for 0.34 um pixels; a quantity of dimension length^d
    measured with another pixel size is rescaled accordingly)"""
    path = EMO + "pxcorr.py"
    module = "dclab.features.emodulus.pxcorr"

    def __init__(self, which):
        self.which = which
        self.qualname = "corr_deform_with_" + which
        self.name = self.qualname
        self.params = (which, "px_um")
        self.consts = {"area_um": (0.0012, [(0.020, 7.1), (0.010, 38.6), (0.005, 296)]),
                       "volume": (0.0013, [(0.0172, 40), (0.0070, 450), (0.0032, 6040)])}[which]
        super().__init__()

    def inputs(self, ctx):
        n = ctx.int("N", lo=0, inp=True)
        x = ctx.arr("x", "real", n=n.e, inp=True, dtype=np.dtype("float64"))
        px = ctx.real("px_um", inp=True)
        ctx.assume(px.e > 0)
        self._x, self._px = x, px.e
        return {self.which: x, "px_um": px}

    def ensures(self, ctx, old, a, result):
        k = z3.Int("k!px")
        c = lambda v: to_z3(float(v), "real")        # noqa: E731  (the double the literal denotes)
        s = c(0.34) / self._px
        scale = s * s if self.which == "area_um" else s * s * s
        offs, terms = self.consts

        def f(x):
            r = c(offs)
            for amp, dec in terms:
                r = r + c(amp) * EXP(-x * scale / c(dec))
            return r
        return [(f"the correction is evaluated at x (0.34/px)^{2 if self.which == 'area_um' else 3}",
                 z3.And(result.n == self._x.n,
                        z3.ForAll([k], z3.Implies(z3.And(k >= 0, k < result.n), result.sel(k) == f(self._x.sel(k))))))]


UNITS = [Scale(w, ip) for w in ("emodulus", "area_um", "volume") for ip in (False, True)] \
    + [PxCorr("area_um"), PxCorr("volume")]
TRUSTED = []
TRUSTED_BASE = ["N-EXP", "scipy.interpolate.griddata (linear interpolation on the Delaunay triangulation, NaN outside the convex hull) "
                "is not under contract", "real arithmetic stands for floating point"]
ASSUMPTIONS = ["interpolation, viscosity models and LUT parsing are outside the contracts; the bounded layer exercises them end to end"]


# --------------------------------------------------------------------------
# frame / statelessness analysis of get_emodulus (AST)
# --------------------------------------------------------------------------
FRESH_CALLS = {"np.array", "numpy.array", "load_lut", "spint.griddata", "scale_feature", "np.zeros_like", "np.copy",
               "get_viscosity", "get_pixelation_delta", "np.sum", "np.isnan"}


#: memoised functions that do not carry state of earlier computations: the list of the
#: LUT files shipped inside the package (fixed once the package is installed)
MEMO_OK = {("load.py", "get_internal_lut_names_dict")}


def _fn(path, name):
    return source.find(path, name).node


def frame_get_emodulus():
    """obligations (solver-free): in get_emodulus
    F1 no parameter is rebound, except to a fresh array made from itself (np.array(p, ..., copy=copy));
    F2 every in-place operation (augmented assignment, item store, call with inplace=True or of normalize /
       extrapolate_emodulus) targets a local that was bound to a fresh value (F1-style copy, load_lut result or a
       column view of it, griddata result, a scale_feature(inplace=False) result);
    F3 no function of the emodulus package is memoised or keeps module-level state (decorators, global statements,
       stores into module-level containers)."""
    res = []
    node = _fn(EMO + "__init__.py", "get_emodulus")
    params = [a.arg for a in node.args.args]
    fresh = set()
    problems_f1, problems_f2 = [], []

    def callee_name(c):
        return ast.unparse(c.func)

    def is_fresh_expr(v, target=None):
        if isinstance(v, ast.Call):
            cn = callee_name(v)
            if cn in ("np.array", "numpy.array"):
                kw = {k.arg: ast.unparse(k.value) for k in v.keywords}
                return kw.get("copy") in ("copy", "True")
            if cn == "scale_feature":
                kw = {k.arg: ast.unparse(k.value) for k in v.keywords}
                return True
            return cn in FRESH_CALLS
        if isinstance(v, ast.Subscript) and isinstance(v.value, ast.Name) and v.value.id in fresh:
            return True            # a view of an owned array
        if isinstance(v, ast.Name) and v.id in fresh:
            return True
        return False
    for st in ast.walk(node):
        if isinstance(st, ast.Assign):
            for t in st.targets:
                names = [t] if isinstance(t, ast.Name) else (list(t.elts) if isinstance(t, ast.Tuple) else [])
                for nm in names:
                    if not isinstance(nm, ast.Name):
                        continue
                    if is_fresh_expr(st.value):
                        fresh.add(nm.id)
                    if nm.id in params:
                        ok = isinstance(st.value, ast.Call) and callee_name(st.value) in ("np.array", "numpy.array") \
                            and st.value.args and isinstance(st.value.args[0], ast.Name) and st.value.args[0].id == nm.id \
                            and {k.arg: ast.unparse(k.value) for k in st.value.keywords}.get("copy") in ("copy", "True")
                        # `medium`/`visco`-style rebinding of other parameters is a change of the inputs used
                        if not ok:
                            problems_f1.append(f"line {st.lineno}: parameter '{nm.id}' is rebound to {ast.unparse(st.value)[:60]}")
    # deform / datax are parameters or locals rebound to copies: owned after that statement
    for st in ast.walk(node):
        tgt = None
        if isinstance(st, ast.AugAssign):
            tgt = st.target
        elif isinstance(st, ast.Assign) and any(isinstance(t, ast.Subscript) for t in st.targets):
            tgt = [t for t in st.targets if isinstance(t, ast.Subscript)][0]
        elif isinstance(st, ast.Expr) and isinstance(st.value, ast.Call) \
                and callee_name(st.value) in ("normalize", "extrapolate_emodulus", "scale_emodulus", "scale_feature"):
            c = st.value
            kw = {k.arg: k.value for k in c.keywords}
            cn = callee_name(c)
            # which argument the callee writes in place
            written = {"normalize": c.args[:1] + [kw[k] for k in ("data",) if k in kw],
                       "extrapolate_emodulus": [kw[k] for k in ("emod",) if k in kw],
                       "scale_emodulus": c.args[:1] + [kw[k] for k in ("emodulus",) if k in kw],
                       "scale_feature": [kw[k] for k in ("data",) if k in kw]}[cn]
            args = list(written)
            for a_ in args:
                base = a_
                while isinstance(base, ast.Subscript):
                    base = base.value
                if isinstance(base, ast.Name) and base.id not in fresh:
                    problems_f2.append(f"line {st.lineno}: in-place call {callee_name(c)} on '{base.id}', which is not an "
                                       f"array created by this function")
            continue
        if tgt is not None:
            base = tgt
            while isinstance(base, ast.Subscript):
                base = base.value
            if isinstance(base, ast.Name) and base.id not in fresh and base.id not in ("scale_kw", "backscale_kw"):
                problems_f2.append(f"line {st.lineno}: in-place operation on '{base.id}', which is not an array created by "
                                   f"this function")
    res.append(("F1 get_emodulus: no parameter is rebound except to a copy of itself", problems_f1))
    res.append(("F2 get_emodulus: every in-place operation targets an array created by the function", problems_f2))
    # F3: statelessness of the package
    problems_f3 = []
    for rel in ("__init__.py", "load.py", "pxcorr.py", "scale_linear.py", "viscosity.py"):
        sf = source.load(EMO + rel)
        module_names = {t.id for st in sf.tree.body if isinstance(st, ast.Assign) for t in st.targets if isinstance(t, ast.Name)}
        for fn in [n for n in ast.walk(sf.tree) if isinstance(n, (ast.FunctionDef, ast.AsyncFunctionDef))]:
            for d in fn.decorator_list:
                dn = ast.unparse(d)
                if any(x in dn for x in ("lru_cache", "cache", "Cache", "memo")) \
                        and (rel, fn.name) not in MEMO_OK:
                    problems_f3.append(f"{rel}:{fn.name} is memoised ({dn})")
            for st in ast.walk(fn):
                if isinstance(st, ast.Global):
                    problems_f3.append(f"{rel}:{fn.name} declares global {st.names}")
                if isinstance(st, (ast.Assign, ast.AugAssign)):
                    for t in (st.targets if isinstance(st, ast.Assign) else [st.target]):
                        base = t
                        while isinstance(base, (ast.Subscript, ast.Attribute)):
                            base = base.value
                        if isinstance(t, (ast.Subscript, ast.Attribute)) and isinstance(base, ast.Name) \
                                and base.id in module_names and fn.name not in ("register_lut",):
                            problems_f3.append(f"{rel}:{fn.name} line {st.lineno} writes module-level '{base.id}'")
    res.append(("F3 emodulus package: no memoisation and no module-level state besides register_lut", problems_f3))
    # F4: load_lut hands out arrays of its own (F2 counts its result as created by get_emodulus)
    problems_f4 = []
    ll = _fn(EMO + "load.py", "load_lut")
    last = {}
    for st in ast.walk(ll):
        if isinstance(st, ast.Assign):
            for t in st.targets:
                for nm in ([t] if isinstance(t, ast.Name) else (list(t.elts) if isinstance(t, ast.Tuple) else [])):
                    if isinstance(nm, ast.Name) and nm.id in ("lut", "meta"):
                        last.setdefault(nm.id, []).append(st)
    def copies(v):
        """expression forms that are known to return a new array"""
        if not isinstance(v, ast.Call):
            return False
        cn = callee_name(v)
        kw = {k.arg: ast.unparse(k.value) for k in v.keywords}
        if cn in ("np.array", "numpy.array"):
            return kw.get("copy", "True") == "True"          # np.array copies unless told otherwise
        if cn in ("np.copy", "numpy.copy", "copy.copy", "copy.deepcopy"):
            return True
        if isinstance(v.func, ast.Attribute) and v.func.attr == "copy":
            return True
        if isinstance(v.func, ast.Attribute) and v.func.attr == "astype":
            return kw.get("copy", "True") == "True"
        return False
    for st in last.get("lut", []):
        v = st.value
        src = ast.unparse(v)
        if copies(v) or (isinstance(v, ast.Call) and callee_name(v) == "load_mtext") \
                or (isinstance(v, ast.Name) and v.id == "lut_data"):
            continue        # (unpacking of the tuple must be followed by a copy: checked below)
        problems_f4.append(f"line {st.lineno}: lut = {src[:60]} is neither a copy of the caller's array nor a table read "
                           f"from a file")
    if not any(copies(st.value) for st in last.get("lut", [])):
        problems_f4.append("the (array, metadata) branch never copies the caller's array")
    if not any(isinstance(st.value, ast.Call) and callee_name(st.value) == "copy.deepcopy" for st in last.get("meta", [])):
        problems_f4.append("the (array, metadata) branch never copies the caller's metadata")
    res.append(("F4 load_lut: the table handed out is a copy of the caller's array or freshly read from a file", problems_f4))
    return res


def extra_checks(run):
    import json as _json
    from pyvc.run import HERE
    for name, problems in frame_get_emodulus():
        run.n_ob += 1
        if not problems:
            run.n_dis += 1
            run.by_backend["frame-analysis"] = run.by_backend.get("frame-analysis", 0) + 1
            continue
        out = replay("get_emodulus[end to end]", {"seed": run.seed})
        fn = HERE / "replays" / ("C05-frame-" + name.split()[0] + ".json")
        fn.parent.mkdir(exist_ok=True)
        fn.write_text(_json.dumps({"property": "C05", "obligation": name, "verifier_output": problems, "replay": out}, indent=1))
        print(f"  failed obligation: {name}: {problems[0]}")
        print(f"  replay: {out.get('detail', '')[:300]}")
        run.violations.append(f"VIOLATION property=C05 replay={fn.relative_to(HERE)}"
                              + ("" if out.get("failed") else " no-failing-input-found"))
    run.extra["frame_analysis"] = [{"obligation": n, "problems": p} for n, p in frame_get_emodulus()]
    # bounded end-to-end layer
    out = replay("get_emodulus[end to end]", {"seed": run.seed, "trials": 2 if run.tier == "quick" else 12})
    run.extra.setdefault("bounded_standins", []).append(
        {"function": "get_emodulus end to end", "tool": "native replay: independence of events / history / temperature form, "
         "proportionality, caller arrays and LUT files untouched, NaN exactly outside the LUT's convex hull",
         "cases": 2 if run.tier == "quick" else 12, "bound": "random events on the three internal LUTs and a user LUT file"})
    if out.get("failed"):
        fn = HERE / "replays" / "C05-end-to-end.json"
        fn.parent.mkdir(exist_ok=True)
        fn.write_text(_json.dumps({"property": "C05", "obligation": "end-to-end properties of get_emodulus", "replay": out}, indent=1))
        print("  " + out["detail"][:300])
        run.violations.append(f"VIOLATION property=C05 replay={fn.relative_to(HERE)}")


# --------------------------------------------------------------------------
# replay on the real code
# --------------------------------------------------------------------------
def _replay_scale(unit_name, inp):
    from dclab.features.emodulus import scale_linear as SL
    which = unit_name.split("[")[0].replace("scale_", "")
    inplace = "inplace=True" in unit_name
    vals = [float(v) for v in (inp.get("data") or [1.0, 2.5, 7.0])][:8] or [1.0, 2.5]
    p = {k: float(inp.get(k, d)) for k, d in (("channel_width_in", 20.0), ("channel_width_out", 30.0), ("flow_rate_in", 0.04),
                                               ("flow_rate_out", 0.12), ("viscosity_in", 15.0), ("viscosity_out", 5.7))}
    data = np.array(vals, dtype=float)
    before = data.copy()
    if which == "emodulus":
        got = SL.scale_emodulus(data, inplace=inplace, **p)
        f = (p["flow_rate_out"] / p["flow_rate_in"]) * (p["viscosity_out"] / p["viscosity_in"]) \
            * (p["channel_width_in"] / p["channel_width_out"]) ** 3
    else:
        fn = getattr(SL, "scale_" + which)
        got = fn(data, p["channel_width_in"], p["channel_width_out"], inplace=inplace)
        f = (p["channel_width_out"] / p["channel_width_in"]) ** (2 if which == "area_um" else 3)
    if not np.allclose(got, before * f, rtol=1e-12):
        return {"failed": True, "detail": f"{unit_name}: {before.tolist()} scaled to {np.asarray(got).tolist()}, expected factor {f}"}
    if inplace and got is not data:
        return {"failed": True, "detail": f"{unit_name}: the result is not the input array"}
    if not inplace and not np.array_equal(data, before):
        return {"failed": True, "detail": f"{unit_name}: the input array was modified"}
    return {"failed": False, "detail": "scaling law and frame hold"}


def _replay_pxcorr(unit_name, inp):
    from dclab.features.emodulus import pxcorr
    which = "area_um" if "area_um" in unit_name else "volume"
    fn = getattr(pxcorr, "corr_deform_with_" + which)
    d = 2 if which == "area_um" else 3
    x = np.array([10.0, 55.0, 300.0, 2500.0])
    for px in (0.34, 0.17, 0.68, float(inp.get("px_um", 0.5) or 0.5)):
        got = fn(x, px_um=px)
        want = fn(x * (0.34 / px) ** d, px_um=0.34)
        if not np.allclose(got, want, rtol=1e-12):
            return {"failed": True, "detail": f"{unit_name}: with {px} um pixels the correction of {x.tolist()} is {got.tolist()}, "
                                              f"the correction at x (0.34/px)^{d} is {want.tolist()}"}
    return {"failed": False, "detail": "pixel-size covariance holds"}


def _replay_end_to_end(inp):
    import pathlib
    import shutil
    import tempfile
    import warnings
    from dclab.features.emodulus import get_emodulus, load
    rng = np.random.default_rng(int(inp.get("seed", 1)))
    kw = dict(channel_width=20.0, flow_rate=0.04, px_um=0.34)
    with warnings.catch_warnings(), tempfile.TemporaryDirectory(prefix="c05_") as td:
        warnings.simplefilter("ignore")
        for trial in range(int(inp.get("trials", 3))):
            n = 12
            area = rng.uniform(30, 250, n)
            deform = rng.uniform(0.005, 0.15, n)
            temp = rng.uniform(22.0, 22.08, n) if trial % 2 == 0 else rng.uniform(18, 30, n)
            lut = ["LE-2D-FEM-19", "HE-2D-FEM-22", "HE-3D-FEM-22"][trial % 3]
            a0, d0, t0 = area.copy(), deform.copy(), temp.copy()
            args = dict(medium="CellCarrier", lut_data=lut, visc_model="buyukurganci-2022", **kw)
            e_all = get_emodulus(area_um=area, deform=deform, temperature=temp, **args)
            if not (np.array_equal(area, a0) and np.array_equal(deform, d0) and np.array_equal(temp, t0)):
                return {"failed": True, "detail": "get_emodulus modified an array handed in by the caller"}
            for k in range(n):
                e_k = get_emodulus(area_um=area[k:k + 1], deform=deform[k:k + 1], temperature=float(temp[k]), **args)
                if not np.allclose(e_all[k], e_k[0], rtol=1e-9, equal_nan=True):
                    return {"failed": True, "detail": f"event {k} alone with its temperature {temp[k]:.4f} as a scalar gives "
                                                      f"{float(e_k[0])}, within the call on {n} events with per-event "
                                                      f"temperatures it gives {float(e_all[k])} (LUT {lut})"}
            e_again = get_emodulus(area_um=area, deform=deform, temperature=temp, **args)
            if not np.array_equal(e_all, e_again, equal_nan=True):
                return {"failed": True, "detail": "the same call gives a different result the second time"}
            # proportional to flow rate and viscosity (medium given as a number)
            e1 = get_emodulus(area_um=area, deform=deform, medium=3.0, temperature=None, visc_model=None, lut_data=lut, **kw)
            e2 = get_emodulus(area_um=area, deform=deform, medium=6.0, temperature=None, visc_model=None, lut_data=lut, **kw)
            e3 = get_emodulus(area_um=area, deform=deform, medium=3.0, temperature=None, visc_model=None, lut_data=lut,
                              channel_width=20.0, flow_rate=0.08, px_um=0.34)
            if not (np.allclose(e2, 2 * e1, rtol=1e-9, equal_nan=True) and np.allclose(e3, 2 * e1, rtol=1e-9, equal_nan=True)):
                return {"failed": True, "detail": "doubling the viscosity or the flow rate does not double the Young's modulus"}
            # joint geometric rescaling: w, px and lengths by s, area by s^2, flow rate by s^3 (constant stress)
            s = 1.5
            e4 = get_emodulus(area_um=area * s * s, deform=deform, medium=3.0, temperature=None, visc_model=None, lut_data=lut,
                              channel_width=20.0 * s, flow_rate=0.04 * s ** 3, px_um=0.34 * s)
            if not np.allclose(e4, e1, rtol=1e-9, equal_nan=True):
                return {"failed": True, "detail": "a joint geometric rescaling of the set-up changes the Young's modulus"}
            # a user LUT file that changes between calls: the second call reads the new content
            src = pathlib.Path(load.get_lut_path("LE-2D-FEM-19"))
            f = pathlib.Path(td) / f"user_{trial}.txt"
            shutil.copy(src, f)
            u1 = get_emodulus(area_um=area, deform=deform, medium=3.0, temperature=None, visc_model=None, lut_data=f, **kw)
            txt = f.read_text().splitlines()
            out_lines = []
            for li in txt:
                if li and not li.startswith("#"):
                    c = li.split()
                    c[2] = repr(float(c[2]) * 2.0)
                    li = "\t".join(c)
                out_lines.append(li)
            f.write_text("\n".join(out_lines) + "\n")
            u2 = get_emodulus(area_um=area, deform=deform, medium=3.0, temperature=None, visc_model=None, lut_data=f, **kw)
            if not np.allclose(u2, 2 * u1, rtol=1e-6, equal_nan=True):
                return {"failed": True, "detail": "after the user LUT file was rewritten (moduli doubled) the result still follows "
                                                  "the old content: the value depends on an earlier call"}
            # a LUT handed over as (array, metadata): used twice, the caller's array stays as it is
            lut_arr, lut_meta = load.load_lut("LE-2D-FEM-19")
            lut_arr = np.array(lut_arr, dtype=float)
            keep_arr, keep_meta = lut_arr.copy(), json.loads(json.dumps(lut_meta))
            t1 = get_emodulus(area_um=area, deform=deform, medium=3.0, temperature=None, visc_model=None,
                              lut_data=(lut_arr, lut_meta), **kw)
            t2 = get_emodulus(area_um=area, deform=deform, medium=3.0, temperature=None, visc_model=None,
                              lut_data=(lut_arr, lut_meta), **kw)
            if not np.array_equal(lut_arr, keep_arr) or lut_meta != keep_meta:
                return {"failed": True, "detail": "get_emodulus modified the look-up table array (or its metadata) that the caller "
                                                  "passed as (array, metadata)"}
            if not np.allclose(t1, t2, rtol=1e-12, equal_nan=True) or not np.allclose(t1, u1, rtol=1e-9, equal_nan=True):
                return {"failed": True, "detail": "the same (array, metadata) look-up table gives different moduli on the second call "
                                                  "or differs from the same table read from a file"}
    return {"failed": False, "detail": "end-to-end properties hold on the sampled inputs"}


def replay(unit_name, inp, obligation=""):
    if unit_name.startswith("scale_"):
        return _replay_scale(unit_name, inp)
    if unit_name.startswith("corr_deform_with"):
        return _replay_pxcorr(unit_name, inp)
    if unit_name.startswith("get_emodulus"):
        return _replay_end_to_end(inp)
    return {"failed": None, "detail": "no replay for " + unit_name}


def bounded_inputs(unit_name, rng):
    for s in range(3):
        yield {"seed": s}
