#!/usr/bin/env python3
"""Render seeded/RESULTS.json as the markdown table of DESIGN.md A.5 (stdout)."""
import json, pathlib
HERE = pathlib.Path(__file__).resolve().parent.parent
res = json.loads((HERE / "seeded" / "RESULTS.json").read_text())
rows, missed = [], []
for sid in sorted(res, key=lambda s: (s.split("-")[0], int(s.split("-")[1]))):
    r = res[sid]
    meta = json.loads((HERE / "seeded" / sid / "meta.json").read_text())
    given = sid.split("-")[0]
    ex = str(r["exit"])
    if ex == "1":
        verdict = "reported, with failing input" if r["with_failing_input"] else "reported (no-failing-input-found)"
    elif ex == "2":
        verdict = "undecided (exit 2): not reported"
    elif ex == "0":
        verdict = "NOT reported"
    else:
        verdict = ex
    if ex != "1":
        missed.append(sid)
    needs = " ".join(meta.get("needs_to_manifest", "").split())
    if len(needs) < 25:
        # no description recorded: the first lines of the demonstration's docstring
        import ast
        try:
            needs = " ".join((ast.get_docstring(ast.parse((HERE / "seeded" / sid / "demo.py").read_text())) or "").split())
        except SyntaxError:
            needs = ""
    needs = needs[:110].replace("|", "/")
    rows.append(f"| {sid} | {given} | {r['checked_by']} | {verdict} | {needs} |")
print("| change | property given to the agent | check | result of the quick check | what the change needs to manifest |")
print("|--------|-----------------------------|-------|---------------------------|-----------------------------------|")
print("\n".join(rows))
n = len(res)
print(f"\n{n - len(missed)} of {n} seeded changes are reported as violations by the designated check "
      f"({sum(1 for r in res.values() if str(r['exit']) == '1' and r['with_failing_input'])} with a failing input replayed on the real code).")
if missed:
    print("Not reported: " + ", ".join(missed) + ".")
