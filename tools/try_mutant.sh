#!/bin/bash
# usage: try_mutant.sh <patch> <pid> [tier]  -- apply patch to /repo, run the check, undo.
# The evidence file of the property is saved and restored: committed evidence must come
# from the unchanged tree only.
P="$1"; PID="$2"; TIER="${3:-quick}"
cd /repo || exit 9
if ! git apply --check "$P" 2>/dev/null; then echo "PATCH DOES NOT APPLY: $P"; exit 9; fi
cp /verif/evidence/$PID.json /tmp/evidence_$PID.bak 2>/dev/null
git apply "$P"
cd /verif && ./check "$PID" --tier "$TIER" 2>&1 | grep -v "WARNING conda" | tail -${LINES_OUT:-8}
RC=${PIPESTATUS[0]}
git -C /repo checkout -- .
[ -f /tmp/evidence_$PID.bak ] && mv /tmp/evidence_$PID.bak /verif/evidence/$PID.json
echo "exit=$RC"
