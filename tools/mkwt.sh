#!/bin/bash
# usage: mkwt.sh <dir>   -- scratch git worktree of /repo HEAD with the ignored build products copied in
set -e
D="$1"
git -C /repo worktree add --detach "$D" HEAD >/dev/null 2>&1
cd /repo
for f in $(git status --short --ignored | awk '$1=="!!"{print $2}' | grep -v egg-info); do
  mkdir -p "$D/$(dirname $f)"; cp -a "$f" "$D/$f"
done
echo "$D ready"
