"""Regenerate MANIFEST.json from tools/manifest_src.py (single source)."""
import json, pathlib, sys
sys.path.insert(0, str(pathlib.Path(__file__).parent))
import manifest_src as m
HERE = pathlib.Path(__file__).resolve().parent.parent
props = [json.loads(l)["id"] for l in open(HERE / "properties.jsonl")]
known = json.loads((HERE / "known_findings.json").read_text()) if (HERE / "known_findings.json").exists() else []
checks = []
for pid in props:
    c = m.CHECKS.get(pid)
    if not c:
        continue
    open_f = [k["id"] for k in known if k["property"] == pid and k["kind"] == "finding"]
    fixed_f = [k["id"] for k in known if k["property"] == pid and k["kind"] == "fixed"]
    extra = ""
    if open_f or fixed_f:
        extra = (f" Known findings of this property (known_findings.json): {len(open_f)} open ({', '.join(open_f) or '-'}; printed as "
                 f"KNOWN-FINDING on every run, exit 0), {len(fixed_f)} repaired in dclab and re-checked on every run "
                 f"({', '.join(fixed_f)}). Open findings with an R- id are violations of the statement for inputs outside the "
                 f"functions and input classes under contract (DESIGN.md A.8): 'held' refers to the obligations generated "
                 f"from the functions under contract.")
    c = dict(c, note=c["note"] + extra)
    checks.append({
        "property_id": pid,
        "quick_cmd": f"./check {pid} --tier quick",
        "thorough_cmd": f"./check {pid} --tier thorough",
        "evidence_file": f"evidence/{pid}.json",
        "replay_cmd_template": f"./check {pid} --replay {{path}}",
        "engine": "pyvc",
        "level_claimed": {"category": c.get("category", "proof"), "text": c["text"], "design_ref": c.get("ref", "DESIGN.md §4 " + pid)},
        "level_note": c["note"],
        "technique": c["technique"],
    })
na = [{"property_id": pid, "reason": m.NOT_APPLICABLE.get(pid, "not claimed yet: contracts for this property are not built in this round (see DESIGN.md §9)")} for pid in props if pid not in m.CHECKS]
man = {
    "version": 1,
    "setup_cmd": "./setup.sh",
    "hooks": {"guard": "DCLAB_VERIF", "enable": "none needed: contracts are sidecar files under /verif and the engine re-reads /repo's sources on every run",
              "baseline_off_cmd": "cd /repo && /venv/bin/python -m pytest -ra -q -p no:cacheprovider --timeout=900 --continue-on-collection-errors",
              "source_commits": [], "add_only": True},
    "engines": [{"name": "pyvc", "path": "pyvc/", "serves_properties": sorted(m.CHECKS),
                 "kind_free_text": "verification-condition generator over the Python AST of the real functions (sidecar contracts, loop invariants, callee contracts), obligations discharged by z3 with cvc5 as second back end; frame (modifies/reads) analyser over the same AST"}],
    "checks": checks,
    "notes": m.NOTES,
    "not_applicable": na,
}
(HERE / "MANIFEST.json").write_text(json.dumps(man, indent=1))
import jsonschema
jsonschema.validate(man, json.load(open("/root/.vp/MANIFEST.schema.json")))
print("MANIFEST ok:", len(checks), "checks;", len(na), "not claimed")
