#!/usr/bin/env python3
"""Confirm a candidate property-breaking change in a scratch worktree and store it
under /verif/seeded/<id>/ (patch.diff, demo.py, meta.json).

usage: confirm_mutant.py <seed-id> <property> <patch> <demo> "<what it needs to manifest>" [--skip-tests]
"""
import json, os, pathlib, shutil, subprocess, sys, tempfile, time
sid, pid, patch, demo, needs = sys.argv[1:6]
skip_tests = "--skip-tests" in sys.argv
PY = "/venv/bin/python"
wt = pathlib.Path(tempfile.mkdtemp(prefix="confirm-", dir="/tmp/wt"))
wt.rmdir()
def sh(cmd, **kw):
    return subprocess.run(cmd, shell=True, capture_output=True, text=True, **kw)
def failed_tests(cwd):
    r = sh(f"{PY} -m pytest -q -p no:cacheprovider --timeout=900 -x -q --co -q >/dev/null 2>&1; "
           f"{PY} -m pytest -q -p no:cacheprovider --timeout=900 -rf -n 8 2>&1 || true", cwd=cwd)
    out = r.stdout
    if "unrecognized arguments: -n" in out or "no such option" in out:
        r = sh(f"{PY} -m pytest -q -p no:cacheprovider --timeout=900 -rf 2>&1 || true", cwd=cwd)
        out = r.stdout
    return sorted({l.split()[1] for l in out.splitlines() if l.startswith("FAILED ")}), out[-400:]
try:
    r = sh(f"/verif/tools/mkwt.sh {wt}")
    assert wt.exists(), r.stdout + r.stderr
    base_file = pathlib.Path("/tmp/wt/baseline_failed_%s.json" % sh("git -C /repo rev-parse --short HEAD").stdout.strip())
    if not skip_tests and not base_file.exists():
        b, tail = failed_tests(wt)
        base_file.write_text(json.dumps(b))
    shutil.copy(demo, wt / "_demo.py")
    r0 = sh(f"{PY} _demo.py", cwd=wt)
    a = sh(f"git apply {os.path.abspath(patch)}", cwd=wt)
    if a.returncode != 0:
        print("patch does not apply:", a.stderr); sys.exit(2)
    r1 = sh(f"{PY} _demo.py", cwd=wt)
    ok_demo = (r0.returncode == 0 and r1.returncode != 0)
    new_fail = None
    if not skip_tests:
        f, tail = failed_tests(wt)
        base = json.loads(base_file.read_text())
        new_fail = sorted(t for t in set(f) - set(base) if "timing" not in t)   # timing tests are flaky under load
    print("demo without change: rc", r0.returncode, "| with change: rc", r1.returncode, "| new test failures:", new_fail)
    if not ok_demo or (new_fail):
        print("NOT CONFIRMED"); print(r0.stdout[-300:], r1.stdout[-300:]); sys.exit(1)
    d = pathlib.Path("/verif/seeded") / sid
    d.mkdir(parents=True, exist_ok=True)
    shutil.copy(patch, d / "patch.diff"); shutil.copy(demo, d / "demo.py")
    meta = {"id": sid, "property": pid, "needs_to_manifest": needs,
            "repo_head": sh("git -C /repo rev-parse --short HEAD").stdout.strip(),
            "confirmed": {"demo_rc_without_change": r0.returncode, "demo_rc_with_change": r1.returncode,
                          "demo_output_with_change": r1.stdout.strip()[-300:],
                          "tests": "full suite in a scratch worktree; no failures beyond the baseline's (untagged-version failures)" if not skip_tests else "not re-run here (agent ran them)",
                          "new_test_failures": new_fail},
            "ran": [f"git apply patch.diff (scratch worktree of /repo HEAD)", f"{PY} demo.py (with and without)", f"{PY} -m pytest -q --timeout=900"]}
    (d / "meta.json").write_text(json.dumps(meta, indent=1))
    print("CONFIRMED ->", d)
finally:
    sh(f"git -C /repo worktree remove --force {wt}")
    shutil.rmtree(wt, ignore_errors=True)
