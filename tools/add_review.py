#!/usr/bin/env python3
"""Register a finding of the code review: copy its demonstration script to /verif/review/<pid>/ and add an entry to
known_findings.json.  usage: add_review.py <pid> <script> <kind: finding|fixed> "<what fails>" [commit]"""
import json, pathlib, shutil, sys
pid, src, kind, what = sys.argv[1:5]
commit = sys.argv[5] if len(sys.argv) > 5 else None
d = pathlib.Path("/verif/review") / pid
d.mkdir(parents=True, exist_ok=True)
n = len(list(d.glob("bug_*.py"))) + 1
dst = d / f"bug_{n}.py"
shutil.copy(src, dst)
p = pathlib.Path("/verif/known_findings.json")
k = json.loads(p.read_text())
ent = {"property": pid, "id": f"R-{pid}-{n}", "kind": kind, "unit": "code review (outside the contracts of this property)",
       "script": f"review/{pid}/bug_{n}.py", ("what_fails" if kind == "finding" else "what_failed"): what}
if commit:
    ent["commit"] = commit
k.append(ent)
p.write_text(json.dumps(k, indent=1, ensure_ascii=False))
print("registered", ent["id"], "->", dst)
