#!/usr/bin/env python3
"""Run the repository's test suite (guard off) and check that every test of
BASELINE.json's stable_pass list passes."""
import json, subprocess, sys, tempfile, xml.etree.ElementTree as ET
b = json.load(open("/root/.vp/BASELINE.json"))
with tempfile.NamedTemporaryFile(suffix=".xml") as f:
    cmd = b["cmd"].replace("<file>", f.name) + " -p no:hypothesispytest -n 8"
    r = subprocess.run(cmd, shell=True, capture_output=True, text=True)
    if "unrecognized arguments" in (r.stdout + r.stderr):
        cmd = b["cmd"].replace("<file>", f.name) + " -p no:hypothesispytest"
        r = subprocess.run(cmd, shell=True, capture_output=True, text=True)
    root = ET.parse(f.name).getroot()
passed = set()
for tc in root.iter("testcase"):
    if not any(ch.tag in ("failure", "error", "skipped") for ch in tc):
        passed.add(f"{tc.get('classname')}::{tc.get('name')}")
missing = [t for t in b["stable_pass"] if t not in passed]
print(f"{len(b['stable_pass']) - len(missing)}/{len(b['stable_pass'])} baseline tests pass")
for t in missing[:20]:
    print("NOT PASSING:", t)
sys.exit(1 if missing else 0)
