import json, sys
pid = sys.argv[1]; wt = sys.argv[2]; n = sys.argv[3] if len(sys.argv) > 3 else "2"
for l in open('/verif/properties.jsonl'):
    p = json.loads(l)
    if p['id'] == pid:
        break
print(f"""You are helping test a verification effort for the Python library dclab (real-time deformability cytometry data analysis). You have your own scratch git worktree of the repository at {wt} (work ONLY there; never touch /repo or /verif and do not read /verif). Use `/venv/bin/python` (Python 3.12, all deps installed); run it with cwd={wt} so that `import dclab` picks up the worktree (verify with `python -c 'import dclab; print(dclab.__file__)'`). Cython is NOT installed: .pyx/.so files cannot be rebuilt, so changes must be made in .py files only. There is no network.

Here is a semantic property of dclab that should hold:

TITLE: {p['title']}
STATEMENT: {p['statement']}
QUANTIFIED OVER: {p['quantifier']['text']}
RELEVANT FILES: {', '.join(p['anchors']['files'])}

Task: produce {n} DIFFERENT, independent source changes (mutations) to dclab, each of which breaks this property while the package still imports and the existing test suite still passes. Each change should be realistic (the kind of slip or well-meant refactor a maintainer could make), small (a few lines), and should need something specific to manifest — an unusual input, a particular multi-step sequence of operations, a boundary case, or two cooperating sites that each look fine alone — NOT something ordinary use or the existing tests expose at once. Prefer changes in the functions that actually implement the property. Make the {n} changes differ in kind and in location (different functions).

For each change i (1..{n}):
 1. Start from a clean worktree (`git -C {wt} checkout -- .`), make the change, save it as {wt}/mut_i.diff (`git -C {wt} diff > mut_i.diff`).
 2. Write a demonstration {wt}/demo_i.py: a small standalone program (uses only dclab + numpy/h5py, creates its own data in a temp dir, no network) that exits 0 and prints PASS on the ORIGINAL code and exits 1 and prints FAIL (with a short reason) when the change is applied. Verify both directions yourself.
 3. Run the relevant existing tests with the change applied and confirm they pass: at least the test files that touch the changed module, e.g. `cd {wt} && /venv/bin/python -m pytest -q -p no:cacheprovider -x tests/test_<relevant>*.py` (the full suite is `cd {wt} && /venv/bin/python -m pytest -q -p no:cacheprovider --timeout=900`, it takes several minutes; run the full suite if you can afford it, otherwise the relevant subset of several files). If a test fails because of your change, pick a different change.
 4. Note: this build is untagged, so .rtdc files written by dclab may be refused on re-open with OldFormatNotSupportedError; in demos set `import dclab.rtdc_dataset.writer as w, dclab.rtdc_dataset.export as e; w.version = e.version = "0.60.0"` before writing if you need to re-open written files.
At the end leave the worktree clean (`git checkout -- .`) with only the untracked files mut_i.diff and demo_i.py in {wt}.

Final report (keep it short, under 25 lines): for each change: file/function changed, one-sentence description, what is needed for it to manifest, which tests you ran and their result, and confirmation that demo_i.py passes without / fails with the change.""")
