#!/usr/bin/env python3
"""Run every seeded change under /verif/seeded against the check that is meant to
catch it (meta.json "property"): apply to /repo, run the quick check, undo.
Writes seeded/RESULTS.json (which check reported what)."""
import json, pathlib, subprocess, sys, time
HERE = pathlib.Path(__file__).resolve().parent.parent
only = sys.argv[1:]
# commit of /verif that last changed the engine or the contracts: says which machinery gave the verdict
ENGINE = subprocess.run(["git", "-C", str(HERE), "log", "-1", "--format=%h", "--", "pyvc", "contracts"], capture_output=True, text=True).stdout.strip()
out = {}
if only and (HERE / "seeded" / "RESULTS.json").exists():
    out = json.loads((HERE / "seeded" / "RESULTS.json").read_text())     # partial re-run: keep the other entries
for d in sorted((HERE / "seeded").iterdir()):
    if not d.is_dir() or (only and d.name not in only):
        continue
    meta = json.loads((d / "meta.json").read_text())
    pid = meta.get("property") or d.name.split("-")[0]
    t0 = time.time()
    r = subprocess.run([str(HERE / "tools" / "try_mutant.sh"), str(d / "patch.diff"), pid], capture_output=True, text=True,
                       env={**__import__("os").environ, "LINES_OUT": "400"})
    txt = r.stdout
    viol = [l for l in txt.splitlines() if l.startswith("VIOLATION")]
    with_input = [l for l in viol if "no-failing-input-found" not in l]
    rc = [l for l in txt.splitlines() if l.startswith("exit=")]
    out[d.name] = {"checked_by": pid, "exit": rc[-1].split("=")[1] if rc else ("patch does not apply" if "DOES NOT APPLY" in txt else "?"),
                   "violations": len(viol), "with_failing_input": len(with_input),
                   "first": (with_input or viol or [""])[0][:200], "seconds": round(time.time() - t0),
                   "engine": ENGINE}
    print(d.name, out[d.name], flush=True)
    (HERE / "seeded" / "RESULTS.json").write_text(json.dumps(out, indent=1))
