NOTES = ("Contract-based deductive verification: every claimed check generates verification conditions from the current "
         "text of the functions in /repo named in its evidence file and discharges them with z3/cvc5. Exit codes: 0 held, "
         "1 violation, 2 undecided (solver gave up or a function left the accepted subset), 3 machinery error. "
         "Fix commits in /repo are listed in known_findings.json as 'fixed'. Besides counterexamples of failed obligations, "
         "known_findings.json holds the findings of a code review by sub-agents (ids R-<property>-<n>, demonstration scripts under "
         "review/): each check runs the demonstrations of its property on every run -- open ones are printed as KNOWN-FINDING "
         "(exit 0), repaired ones must pass or are reported as a VIOLATION.")
CHECKS = {
 "C19": {
  "text": "Proof, for all chunk sizes, capacities >= 1, resource lengths < 2**62, cache states and arguments, that "
          "HTTPFile.get_cache_chunk/read_range_cached/read/seek/tell return exactly the bytes of the resource and keep the "
          "cache invariant (every cached chunk equals its piece of the resource; at most keep_chunks chunks). Loops are cut by "
          "inductive invariants, so any number of chunks and any history of operations is covered.",
  "note": "Trusted: the server contract of download_range (a valid Range returns that piece), Python ints as mathematical "
          "integers, bytes modelled as slices of one ghost sequence, dict order model, z3/cvc5 and the pyvc engine. read() at and beyond the end "
          "of the resource, read(0) and read(size<0) are decided since the repairs 644e67e / 5ac393a. Not decided: the 'dataset over HTTP "
          "equals local dataset' corollary (follows from "
          "byte-exact reads plus determinism of h5py, assumed).",
  "technique": "contract-based deductive verification: AST-generated VCs with loop invariants and callee contracts, discharged by z3 (cvc5 fallback)"},
}
CHECKS["C20"] = {
  "text": "Proof that RTDCWriter.write_ndarray (scalar branch) appends exactly the given events and re-establishes the summary "
          "invariant SInv (stored min/max/mean == NaN-ignoring min/max/mean of the stored values) for every split of the data over "
          "calls and every placement of NaNs, and that H5ScalarEvent.min/max/mean and ChildScalar.min/max/mean return those "
          "summaries (stored attribute under SInv, else computed from the feature's own values).",
  "note": "Trusted: floats as reals plus explicit NaN (no +-inf, no rounding), the h5py object model H-CREATE/H-RESIZE/H-SLICE/H-ATTR, "
          "numpy nanmin/nanmax/nanmean as the recursive NaN-ignoring summaries, the concatenation/prefix lemmas of the summary "
          "functions (pyvc/lemmas.py), hparent[feat] as the parent's data. Not yet under contract: rtdc_copy summary completion, "
          "task_join/export paths reach the file only through write_ndarray (assumed, see C01/C02).",
  "technique": "contract-based deductive verification: AST-generated VCs over an axiomatised HDF5/numpy model with ghost summary state, discharged by z3 (cvc5 fallback); bounded replay only when a function leaves the accepted subset"}
CHECKS["C01"] = {
  "text": "Proof of the representation invariant 'file == what was written' per writer operation over an axiomatised HDF5 object "
          "model: write_ndarray (scalar in C20, n-D chunk loop with inductive invariant: content' == content ++ data for every chunk "
          "size and event count), get_best_nd_chunks, write_image_grayscale (uint8, bool mask -> uint8*255, H5MaskEvent raw), "
          "store_feature for scalar/uint64/index/image/mask/qpi/trace in append and replace mode incl. frame (no other feature touched), "
          "write_ragged (numbering continues, cached size == real size, fresh writer on existing file), write_text (every line stored "
          "untruncated, for all line lengths), rectify_metadata (event count, roi size, samples per event, channel count), and the "
          "readers H5ContourEvent/H5MaskEvent/H5ScalarEvent.__getitem__.",
  "note": "Trusted: the h5py object model (H-CREATE, H-RESIZE, H-SLICE, H-ATTR, H-FIXEDSTR), n-D events and text lines as opaque "
          "payloads with uninterpreted elementwise conversions (N-ELEMWISE, S-UTF8, N-MASK-ROUNDTRIP), dtype conversion on write as "
          "identity on values, dfn.feature_exists/scalar_feature_exists called natively on concrete names. Not under contract yet: "
          "store_table, store_metadata (C11), store_feature for plugin/temporary non-scalar features and list/2-D single-event inputs, "
          "writer __init__/__exit__, H5TraceEvent, H5Logs/H5Tables readers. Induction over sequences of calls is the data-structure "
          "meta-rule (each operation preserves the invariant).",
  "technique": "contract-based deductive verification: AST-generated VCs (loop invariants, callee contracts) over an axiomatised HDF5/numpy model, discharged by z3 (cvc5 fallback)"}
CHECKS["C14"] = {
  "text": "Proof (z3 string theory, all identifiers) that Basin.verify_basin is truthy exactly for an available basin whose run "
          "identifier equals the referrer's (prefix for mapped basins) and never raises, for Optional[str] identifiers on both sides; "
          "that basins_retrieve hands out no basin whose key is on the ignore list, basins of a class that opens local files only if "
          "local basins are allowed -- whatever type the definition states (D38, fixed) --, file-type basins verified, each carrying the ignore list plus all own keys; that Basin.ds passes the ignore list to the opened dataset "
          "(ignore set grows strictly along any chain => termination for every reference graph); that get_feature_data serves data only "
          "after verification; that features_basin offers a feature exactly when a basin that is reachable now provides it; frame obligations: the only writes of _local_basins_allowed are False and the format=='hdf5' guard.",
  "note": "Trusted: Basin constructors record their arguments (availability thread outside every contract), python str.__eq__/startswith "
          "semantics for non-str arguments, file-system existence unconstrained, the scenario of six basin definitions (file, remote, "
          "internal, relative file, and a local-file format declared as remote / as internal) in basins_retrieve is one fixed structure with symbolic flags. Not decided: DCOR/S3 network behaviour, "
          "basin dictionaries without a 'key'. The termination argument (variant on the ignore set) is stated, not mechanised.",
  "technique": "contract-based deductive verification: AST-generated VCs discharged by z3 (strings; cvc5 fallback) plus a solver-free field-write frame analysis"}
CHECKS["C09"] = {
  "text": "Proof for split(): number of parts == ceil(N/s) and part j is exported with exactly the window [j*s,(j+1)*s) of events, "
          "minus at most the two boundary events (empty images), the manual filter being reset before each part (inductive invariant "
          "over the ghost relation exported(part, event), any N and s); skip_empty_image_events only ever clears manual[0]/manual[N-1] "
          "exactly when the first/last image is empty. Proof for join(): (i) slice up to the sorted input list with real z3/cvc5 "
          "strings: the earlier acquisition (date, HH:MM:SS, fractional seconds) comes first; (ii) whole function on a three-input "
          "scenario with symbolic data, opaque time stamps and a total order axiom: chronological order, written features == features "
          "available in every input, per-feature concatenation in order, time + offset, frame + round(offset*rate), index 1..N, logs "
          "of every source retained.",
  "note": "Trusted: Export.hdf5/RTDCWriter.store_feature/new_dataset contracts (C02/C01), T-EPOCH (mktime(strptime(stamp)) monotone in "
          "the lexicographic order of zero-padded stamps; DST not modelled), S-ORDER, N-ROUND, opaque event payloads; the join scenario "
          "fixes the number of inputs (3) and their feature sets, and does not explore the branches that only log recorded warnings. "
          "Known findings D18 (index_online shifted in join(split(x))) and D21 (ties ordered by run index) are carved out. .tdms "
          "sources are outside the contracts.",
  "technique": "contract-based deductive verification: AST-generated VCs with loop invariants and ghost relations, z3 with cvc5 (strings) as second back end; bounded replay when a function leaves the accepted subset"}
CHECKS["C17"] = {
  "text": "Proof that Cache.__call__ computes as key the digest of the framed encoding of (positional arguments, sorted keyword "
          "names and values, function name/doc/file) -- every payload preceded by a header with kind, for arrays dtype and shape, "
          "and payload length -- and follows the cache protocol (hit: stored result, function not called; miss: one call with the "
          "given arguments, result stored, FIFO eviction, keys list == dict keys); that H5ScalarEvent/ChildScalar hand out no writable "
          "alias of their cached arrays for [i], [a:b], [:], __array__() (ownership decided on the view heap of the engine); that the "
          "KDE wrapper ignore_nan_inf returns a fresh array and feeds the estimator exactly the finite pairs; that the file-hash "
          "cache key covers (resolved path, st_mtime_ns, st_size, arguments).",
  "note": "Trusted: A-HASH (md5 injective on update sequences), A-FRAME (length-prefixed framing is uniquely decodable), N-RAWBYTES, "
          "A-MTIME, A-DET for the memoised functions, functools.lru_cache keys on all call arguments; the Cache scenario fixes the "
          "argument structure (two arrays, an int, two keywords) and capacity 2. Not under contract: LazyContourList (deque with "
          "maxlen), BasinProxyFeature ownership (same fix applied, covered by the D5 regression replay).",
  "technique": "contract-based deductive verification: AST-generated VCs, structural obligations on the ghost hash stream and on the engine's view/alias heap, z3 for the value obligations"}
CHECKS["C03"] = {
  "text": "Proof of the class invariant of Filter (every cached box array == box(last applied settings); every cached polygon array "
          "== inside() for the polygon state whose hash is stored) and of the postcondition of Filter.update: for every event, "
          "all[i] == (enable ? box(cfg) and invalid(cfg) and polygons(cfg) and manual : True) for the *current* settings, independently "
          "of the previous state beyond the invariant (=> independent of the history of edits); bounds inclusive, swapped when reversed, "
          "inactive when min == max, NaN never inside (IEEE comparisons on a float sort with NaN/+-inf), polygon added / cached / "
          "modified (hash change) / removed, invalid-event removal, enable toggle; with an event limit only qualifying events remain.",
  "note": "Trusted: rank/select axioms for boolean indexing and masked assignment, PolygonFilter.filter as a function inside(id,x,y) "
          "(C15), downsample_rand contract (C16), Configuration.copy as a deep copy, scalar_feature_exists called natively. The scenario "
          "has two scalar features, one box-filtered feature and at most one polygon filter (12 structure variants, data and values "
          "symbolic, any number of events). The exact count under an event limit follows from the downsample_rand contract and a "
          "cardinality lemma that is stated, not mechanised. Filter.__init__/reset and RTDCBase.polygon_filter_add/rm are not under contract.",
  "technique": "contract-based deductive verification: AST-generated VCs with a class invariant as pre/postcondition over quantified array formulas, discharged by z3 (cvc5 fallback)"}
CHECKS["C04"] = {
  "text": "Proof over the rank/select axioms of np.where: map_indices_child2parent (index arrays and scalar, negative indices), "
          "child2root (composition of the level maps, depths 1..3), parent2child and root2child (increasing child indices whose "
          "parent/root event is given, depths 1..2); ChildNDArray/ChildContour/ChildTraceItem[idx] == parent feature at S[idx]; "
          "ChildScalar values == parent[feat][filter] (C20/C17 units); HierarchyFilter.retrieve_manual_indices: remembered root ids == "
          "root events excluded now + remembered ids hidden now (ghost cuts over set predicates); apply_manual_indices: exactly the "
          "child events whose root event is remembered are excluded again; RTDC_Hierarchy.apply_filter: manual ids retrieved before "
          "the parent refresh, every cached feature object dropped unconditionally, fresh index 1..len, parent-change check before the "
          "child's own filters are recomputed.",
  "note": "Trusted: N-WHERE / N-FANCY / N-ISIN, P-SET (finite sets of ints enumerate without repetition), hparent[feat] as the parent's "
          "feature object, the callees of apply_filter as recording stubs (their own contracts are the units above and C03). The chain "
          "of hierarchy levels is concrete per unit (depth 1..3) with symbolic data and filters; general depth by induction (stated). "
          "_check_parent_filter's composition (retrieve, new HierarchyFilter, apply) and set_temporary_feature are not under contract; "
          "the replay harness plays edit histories on real hierarchies (bounded, used only when a function leaves the subset).",
  "technique": "contract-based deductive verification: AST-generated VCs over quantified rank/select axioms with ghost functions and ghost cuts, discharged by z3"}
CHECKS["C02"] = {
  "text": "Proof that the generator yield_filtered_array_stacks yields chunks (1..chunk_size events each) whose concatenation is "
          "data[indices] in order, for the sliced path and for the buffer-reusing event-by-event path (ghost output sequence, inductive "
          "invariants, any chunk size and number of indices); that store_filtered_feature appends exactly data[where(filter)] for scalar, "
          "image-like, contour and trace features and writes nothing for an empty selection; that Export.hdf5 (hdf5 and dict sources, "
          "filtered/unfiltered, unequal feature lengths) writes for every requested feature exactly the selected events in order, only "
          "the requested features, carries metadata sections/user entries/logs/tables, stores event count == number of exported events "
          "and a new run identifier for filtered exports; that Export.tsv writes one column per requested scalar feature restricted to "
          "the filter with '%.10e'.",
  "note": "Trusted: RTDCWriter as in C01 (store_feature callee contract; __exit__ rectifies the count when events exist), rank/select "
          "axioms incl. N-WHERE-EXT and N-WHERE-ALLTRUE, opaque event payloads, the export scenario (two features, one log, one table, "
          "basins=False; basins are C07), file writes recorded in a ghost log, np.savetxt prints what it is given. Not under contract: "
          "Export.fcs/avi, plugin/temporary non-scalar features, .tdms sources (represented by an index-only object in the generator unit).",
  "technique": "contract-based deductive verification: AST-generated VCs with generator ghost output, loop invariants and callee contracts, discharged by z3"}
CHECKS["C07"] = {
  "text": "Proof that BasinProxyFeature[idx] == origin[basinmap[idx]] for integer (also negative), slice, [:], index-array and "
          "boolean-mask access, for scalar and image-like features and maps that repeat or permute events (loop invariant over the "
          "output buffer); that RTDCWriter.store_basin names a mapping feature whose content equals the given map, reuses an existing "
          "one only if equal and never overwrites one; that Export.hdf5(basins=True) records for the source (the root file for a "
          "hierarchy child) a local 'file' basin with absolute path + bare file name and the map j -> where(filter)[j] "
          "(root_of(...) for hierarchy children), for a basin the source already had the composed map old_map[where(filter)], and for "
          "a basin of the root parent of a hierarchy child the root's map composed with the root indices of the exported child events "
          "(D37, fixed); that BasinProxyFeature.__array__ keeps the representation invariant 'the cache is empty or holds exactly "
          "origin[basinmap]' for every requested dtype.",
  "note": "Trusted: N-FANCY/N-WHERE/N-MASK, N-EMPTY, opaque event payloads, map_indices_child2root contract (C04), the writer stubs of "
          "C02, hashobj as an injective key, json.dumps/loads. The composition argument (exports of exports: out.map == src.map o "
          "selection => out[f][j] == origin[f][...]) is by induction over exports (stated); Basin.load_dataset, BasinProxy, "
          "InternalH5DatasetBasin and basins_retrieve's relative-path lookup are exercised only by the end-to-end replay harness "
          "(bounded, used when a function leaves the accepted subset). Precedence of stored features over basin features is not under contract.",
  "technique": "contract-based deductive verification: AST-generated VCs with loop invariants over an axiomatised numpy/HDF5 model, discharged by z3"}
CHECKS["C10"] = {
  "text": "Typestate proof over the real task functions (compress, repack, condense + condense_dataset, join, split, tdms2rtdc, with "
          "common.setup_task_paths and RTDCWriter.__init__/__exit__/close inlined): every modelled file-system operation generates the "
          "obligations W (write-capable opens/writes only under a '~' name that is neither an input nor a requested output), U (no "
          "unlink/rename of an input), R (rename to a requested output only with no open handle on the source and no failed operation "
          "before it); every write-capable operation may fail (symbolic fault per operation, then the code's own exception handling "
          "runs); loops are cut by 'ghost state unchanged' invariants (condense_dataset) or unrolled for fixed file counts "
          "(join 2/3 inputs, split 1/3 parts, tdms2rtdc 1 file / 2-file directory). The pre-operation state is the kill-point state.",
  "note": "Effect contracts of callees are assumed (rtdc_copy writes only through dst, Export.hdf5 creates/writes/closes the given path, "
          "RTDCWriter.store_* write only through self.h5file, new_dataset opens read-only, get_command_log/hashfile only read). "
          "Path names are concrete representatives incl. three aliasing cases; which files exist, all data, flags, recorded warnings "
          "and failures are symbolic; at most one injected failure per run. Durability (fsync) and HDF5-internal buffering are not "
          "modelled. A bounded layer (native fault injection on the real tasks, every operation failed in turn / file system observed "
          "before every operation, one small input per scenario) runs on every check and is the replay harness; it is labelled bounded.",
  "technique": "contract-based deductive verification: AST-generated typestate VCs over a ghost file system with per-operation fault "
               "injection, callee effect contracts, discharged by z3; native fault-injection replay as labelled bounded stand-in"}
CHECKS["C16"] = {
  "text": "Proof over the .pyx source (C declarations deleted mechanically, pyvc/cy2py.py) that downsample_rand and downsample_grid return "
          "a mask of the input's length that selects exactly the returned values (dsa == a[mask], in order), only eligible events "
          "(finite ones with remove_invalid), `samples` of them when that many eligible events exist and all eligible ones otherwise "
          "(add / remove / pad branches of the grid method), each random draw starting from the fixed generator state; norm() maps "
          "finite non-constant data into [0,1]; populate_grid marks exactly the first event of each occupied cell without leaving the "
          "grid (loop invariant); RTDCBase.get_downsampled_scatter translates the selection into a dataset mask inside the filter "
          "that selects exactly the returned events, for every request size incl. larger than the data. Filter.update's event limit "
          "is decided under C03 with the downsample_rand contract proved here.",
  "note": "Assumed: N-WHERE/N-MASK rank-select model; counting axioms N-COUNT-COMPL/-FLIP/-MASKSET (audited exhaustively on numpy up to "
          "length 7 on every run); N-CHOICE, A-RNG (a draw is a function of generator state and arguments, so 'same input, same "
          "selection' follows from the proved obligation that every draw is preceded by set_state(seed 47)); N-CAST-UINT; real "
          "arithmetic for norm(). The running code is the compiled extension built from the .pyx: a differential run of the cy2py text "
          "under CPython against the extension module is part of the bounded layer. Two known findings in the extension module (no "
          "Cython here to rebuild it): D3 (samples > N without remove_invalid raises) and D25 (constant coordinate raises IndexError). "
          "The @Cache decorator on downsample_grid is C17's subject.",
  "technique": "contract-based deductive verification: AST-generated VCs (cy2py text of the .pyx) with loop invariants, ghost assertions and "
               "callee contracts over an axiomatised numpy model, discharged by z3"}
CHECKS["C06"] = {
  "text": "Three layers over the real code. (1) For every AncillaryFeature instance in the real registry: the ingredient set of its cache key is "
          "derived by executing AncillaryFeature.hash symbolically; the instance's method is executed symbolically on a dataset whose "
          "configuration keys are present/absent/valued symbolically under the assumption that this instance is selected; relational "
          "(non-interference) obligations over all pairs of paths prove that two states agreeing on the ingredients of the hash give the "
          "same outcome -- ingredients being configuration keys and features (presence and values; the real requirement functions "
          "has_ml_scores / bg_off_id / fl_max_available are part of the symbolic execution of hash) -- and noraise obligations that a "
          "selected instance can be read. (2) RTDCBase.__contains__ reports a computed feature exactly when one of its recipes is available "
          "in the current state, whatever the cache holds; RTDCBase._get_ancillary_feature_data returns the "
          "cached value only for an entry stored under the hash of the current state, otherwise the value computed now, never recomputes "
          "on a hit and keeps the invariant 'entry == value of its hash'. (3) AncillaryFeature.is_available equals the availability formula "
          "(requirements present, no higher-priority instance available, req_func) for the emodulus, crosstalk, time, volume and ml_class instances.",
  "note": "Assumed: A-HASH; functions of dclab.features.* are pure functions of their arguments (checked: never handed the dataset); innate "
          "features do not change during the life of a dataset (temporary features can be set and replaced: covered); ml_score values lie in [0, 1]; numeric "
          "content is abstracted (opaque values with structural signatures). Known finding D16 (availability does not look at values: "
          "'emodulus' / 'flN_max_ctc' reported available although reading raises). Defects D15/D26/D32-D35 found by these obligations were fixed in dclab. Plugin features, the priority of cached "
          "ancillary data over basin data in RTDCBase.__getitem__, and obj2bytes' injectivity on arrays (dtype/shape, cf. C17) are not under contract.",
  "technique": "contract-based deductive verification: AST-generated VCs incl. relational non-interference obligations over path pairs and a "
               "derived reads/hash frame, discharged by z3"}
CHECKS["C15"] = {
  "text": "Proof over the cy2py text of _shared/geometry.pyx that point_in_polygon returns the parity of the number of polygon edges "
          "crossed by the rightward ray (loop invariant over a ghost parity; the specification of one crossing is a division-free cross "
          "product, proved equivalent to the code's quotient form; no division by zero), that points_in_polygon classifies every point "
          "(loop invariant), that pnpoly.points_in_poly passes vertices and points on unchanged, that PolygonFilter.filter == inside XOR "
          "inverted for the filter's own vertices and PolygonFilter.copy(invert) inverts by XOR. Lemmas: a crossing does not depend on the "
          "edge's direction, a degenerate edge (repeated / closing vertex) is never crossed.",
  "note": "Independence of starting vertex, orientation and a repeated closing vertex follows from the two edge lemmas by the multiset "
          "argument (stated, the induction over the vertex list is not machine-checked) and is exercised end to end by the bounded layer. "
          "Real arithmetic stands for double arithmetic (points on the boundary are outside the statement). The compiled glue "
          "_pnpoly._points_in_poly (pointer arithmetic) is outside cy2py's subset: covered by a differential run of the verified text against "
          "the extension module (bounded). PolygonFilter.save/_load (text formatting and parsing) is outside the accepted subset: decided by "
          "the bounded round-trip stand-in (names incl. '=', brackets, unicode; repeated vertices; identifier), labelled bounded. Known "
          "finding D28: a name with leading/trailing white space is stripped on load.",
  "technique": "contract-based deductive verification: AST-generated VCs (cy2py text of the .pyx) with loop invariants, lemma hints and "
               "nonlinear real arithmetic, discharged by z3; bounded round-trip replay for the .poly text format"}
CHECKS["C18"] = {
  "text": "Decided clauses: (brightness) get_bright / get_bright_bc / get_bright_perc on lists of events return, per event and independent "
          "of the other events, the mean / standard deviation / 10th and 90th percentile of the pixels of (image cast to int minus "
          "background) selected by the mask, with bg_off[k] subtracted one-to-one from averages and percentiles and not from the deviation "
          "(loop invariants over uninterpreted per-event statistics); (crosstalk) correct_crosstalk applied to fl = t C returns t_k for "
          "every channel k, any non-negative spill-over matrix C with unit diagonal that is invertible (N-LINALG-INV plus a regrouping "
          "lemma); (volume) one truncated-cone term negates under reversed orientation, equals dz(R^2+Rr+r^2) and scales with s^3 (lemmas), "
          "and get_volume hands coordinates relative to the centroid to the orientation test and to both half volumes with the pixel size "
          "as scale; (frame) get_inert_ratio_prnc never writes to the caller's contours; (lazy contours) LazyContourList.__getitem__ keeps "
          "the representation invariant 'entry k of contours is the contour of mask indices[k]' over deques of any length (with and "
          "without limit) and serves the contour of the requested mask.",
  "note": "Not decided by contracts (see DESIGN.md): contour tracing of masks and refilling (marching squares in compiled code), moment "
          "symmetries and rotation invariance of the inertia ratios (trigonometry, OpenCV-style accumulation), convergence of the volume "
          "for discretised spheres, the summation over segments in vol_revolve (only the segment term is proved). Assumed: P-* payload "
          "axioms, N-LINALG-INV, real arithmetic for floating point, cont_moments_cv / counter_clockwise / vol_revolve stubs at their call sites.",
  "technique": "contract-based deductive verification: AST-generated VCs with loop invariants over uninterpreted per-event statistics, "
               "nonlinear real arithmetic lemmas and structural data-flow signatures, discharged by z3"}
CHECKS["C05"] = {
  "text": "Decided clauses: scale_emodulus / scale_area_um / scale_volume multiply every entry by the documented factor "
          "((Q_out/Q_in)(eta_out/eta_in)(w_in/w_out)^3, (w_out/w_in)^2, (w_out/w_in)^3) and respect the in-place / copy frame (proof, "
          "elementwise over symbolic arrays); the pixelation corrections are evaluated at x(0.34/px)^2 for an area and x(0.34/px)^3 for a "
          "volume (proof, np.exp uninterpreted); frame analysis of get_emodulus over the AST: no parameter is rebound except to a copy of "
          "itself, every in-place operation targets an array the function created, and no function of the emodulus package is memoised "
          "or keeps module-level state (so a value cannot depend on earlier calls).",
  "note": "The piecewise-linear interpolation (scipy griddata / Qhull), NaN outside the LUT's support, the viscosity models and LUT "
          "parsing are not within reach of a contract: not decided. They are exercised by the bounded end-to-end layer on every run "
          "(each event alone with its own scalar temperature equals its value within a batch with per-event temperatures; repeatability; "
          "doubling viscosity / flow rate doubles the result; joint geometric rescaling invariance; caller arrays untouched; a rewritten "
          "user LUT file is re-read), labelled bounded. The frame analysis is syntactic (flow-insensitive ownership of locals).",
  "technique": "contract-based deductive verification: AST-generated VCs for the scaling and pixelation functions discharged by z3; "
               "AST frame (ownership / statelessness) analysis for get_emodulus; bounded native replay for the interpolation"}
CHECKS["C11"] = {
  "text": "Proof that the converters fint / fbool / fboolorfloat map every float, int and bool to the documented type and conversion "
          "(truncation, != 0, False-or-float) and that the conversion is idempotent; that get_config_value_func selects the documented "
          "converter for table-defined keys and for online_filter keys named by rule ('... soft limit' -> bool, '... polygon points' -> float "
          "array, for one feature or a pair); that ConfigurationDict.__setitem__ stores exactly the lower-cased key with the value converted "
          "to the key's type and stores nothing for None, an empty string, an unknown key or a blank user key; that update() hands every "
          "entry to __setitem__.",
  "note": "String-valued input of the converters and the two storage formats are outside the accepted subset and decided by bounded "
          "round-trip stand-ins on every run (labelled bounded): values of every type incl. rule-named online_filter keys, numpy "
          "scalars, unicode, '#', '=', ':' in values and user keys are written with RTDCWriter.store_metadata, read back and carried "
          "through export and compared with the normalised originals; values loaded from a .cfg file must have the documented type "
          "and be fixed points of assignment. Metadata carry-over of Export.hdf5 incl. rule-named keys is proved under C02. Array values "
          "have no text form in .cfg files (not covered). Known finding D29 (online_filter min/max given as text stay strings).",
  "technique": "contract-based deductive verification: AST-generated VCs over the converter and dictionary code discharged by z3; bounded "
               "round-trip replay for the text and HDF5 formats"}
CHECKS["C12"] = {
  "text": "Proof (symbolic arrays, rank/select model) that Statistics.get_feature returns exactly the finite values of the feature at the "
          "events passing filter.all (all events with filtering disabled), in order -- the two-step selection equals the one-step selection "
          "a dataset of only the selected events would make; Statistics.__call__ applies the registered method to exactly that data and "
          "yields NaN for an empty selection; the registry maps Mean/Median/SD to numpy's average/median/std. Data-flow obligations "
          "(structural signatures of opaque values) for get_kde_scatter, get_kde_contour and kde_contours.get_quantile_levels: features are "
          "restricted to filter.all before anything else, scaling / bin spacing are computed from the restricted data, the estimator "
          "receives only those, and NaN and infinite events of both coordinates are dropped (get_bad_vals) before grid and quantiles.",
  "note": "Not decided: that each density estimator equals its reference estimator (scipy / statsmodels numerical code), the quantile "
          "property of the bisection in _find_quantile_level, Mode. Downsampled scatter data are C16's subject, filtered text exports "
          "C02's. The bounded layer compares, on every run, statistics / KDE scatter / KDE contour / quantile levels of a filtered dataset "
          "with NaN and inf values against a dataset holding only the selected events (labelled bounded).",
  "technique": "contract-based deductive verification: AST-generated VCs over the rank/select array model discharged by z3; structural "
               "data-flow obligations; bounded native replay for the estimators"}
CHECKS["C13"] = {
  "text": "Proof, on a dataset whose features and metadata keys are present/absent and valued symbolically, that check_feat_index reports a "
          "violation exactly when the index feature does not enumerate 1..N; check_feature_size one violation per innate feature whose "
          "length differs from the event count; has_fluorescence is true exactly when a fluorescence entry or any of fl1/fl2/fl3_max "
          "exists; check_fl_num_channels / check_fl_num_lasers report a violation exactly when the stated count differs from the number "
          "of named channels with stored data / lasers with wavelength and non-zero power; check_metadata_bad_greater_zero one violation "
          "per set-up value that is present and not positive; check_metadata_bad one violation per image-like feature (image, image_bg, "
          "mask) and axis whose frame size differs from the ROI size, naming the key.",
  "note": "'Accepts dclab's own output' and 'copies get the same violations' concern writer, CLI tools and all checks together on real "
          "files: decided by the bounded stand-in on every run (files with complete metadata with and without fluorescence written by "
          "RTDCWriter, compressed and repacked; eleven kinds of inconsistency put into finished files must each be reported), labelled "
          "bounded. Table-driven checks (missing mandatory metadata, unknown features, external links, choices, "
          "HDF5 types) carry no contract.",
  "technique": "contract-based deductive verification: AST-generated VCs over a symbolic dataset / metadata model discharged by z3; "
               "bounded native replay for whole-file behaviour"}
CHECKS["C08"] = {
  "text": "Proof over the real task functions (ghost file system of C10, no fault injection) that repack asks rtdc_copy for all features "
          "and tables, and for basins / logs exactly when they are not stripped; compress for everything; condense_dataset for the scalar "
          "features with basins, logs and tables. Proof over the HDF5 object model that rtdc_copy copies every file attribute (metadata) "
          "with its value, every log under the prefixed name exactly when logs are included, every table with equal content and "
          "attributes exactly when tables are included, hands exactly the requested features (all / scalar / none) to h5ds_copy and "
          "leaves the source untouched; that h5ds_copy transfers a numeric dataset with equal values, order and attributes "
          "on all three routes (HDF5 object copy when already compressed, re-creation and chunk-by-chunk fill with a loop invariant, "
          "re-creation and whole-array fill) and returns the new dataset; that basin_definition_copy defines every kept basin exactly once in the "
          "destination (six configurations of file / remote / internal basins; a partly selected internal basin is rewritten with exactly the "
          "selected features, an unselected one dropped); that condense_dataset completes for HDF5 and .tdms inputs unless an operation fails.",
  "note": "h5ds_copy for object-string datasets (conversion to fixed width), groups (trace), empty datasets, defective-feature handling, "
          "the JSON text of rewritten basin definitions, the completion of min/max/mean attributes (C20) and .tdms reading are outside these contracts. "
          "The bounded stand-in runs on every check: an input with unicode logs longer than 100 bytes, table attributes, user metadata "
          "with ':' and '=', dotted output names; compress / repack outputs compared with the input value by value (datasets, "
          "attributes, metadata), applied again to their own output, strip options, condense's scalar features, tdms2rtdc against the "
          ".tdms source, input file hash (labelled bounded).",
  "technique": "contract-based deductive verification: AST-generated VCs over the HDF5 object model and the ghost file system discharged by "
               "z3; bounded native comparison of input and output files"}
NOT_APPLICABLE = {}
