NOTES = ("Contract-based deductive verification: every claimed check generates verification conditions from the current "
         "text of the functions in /repo named in its evidence file and discharges them with z3/cvc5. Exit codes: 0 held, "
         "1 violation, 2 undecided (solver gave up or a function left the accepted subset), 3 machinery error. "
         "Fix commits in /repo are listed in known_findings.json as 'fixed'.")
CHECKS = {
 "C19": {
  "text": "Proof, for all chunk sizes, capacities >= 1, resource lengths < 2**62, cache states and arguments, that "
          "HTTPFile.get_cache_chunk/read_range_cached/read/seek/tell return exactly the bytes of the resource and keep the "
          "cache invariant (every cached chunk equals its piece of the resource; at most keep_chunks chunks). Loops are cut by "
          "inductive invariants, so any number of chunks and any history of operations is covered.",
  "note": "Trusted: the server contract of download_range (a valid Range returns that piece), Python ints as mathematical "
          "integers, bytes modelled as slices of one ghost sequence, dict order model, z3/cvc5 and the pyvc engine. Not decided: "
          "read(size<=0), reads past the end of the resource, the 'dataset over HTTP equals local dataset' corollary (follows from "
          "byte-exact reads plus determinism of h5py, assumed).",
  "technique": "contract-based deductive verification: AST-generated VCs with loop invariants and callee contracts, discharged by z3 (cvc5 fallback)"},
}
NOT_APPLICABLE = {}
