#!/usr/bin/env python3
"""Regenerate the tables of DESIGN.md that are derived from files: review findings (fixed / open) from
known_findings.json and the seeded-change table (A.5) from seeded/RESULTS.json."""
import json, pathlib, subprocess, sys
HERE = pathlib.Path(__file__).resolve().parent.parent
k = json.loads((HERE / "known_findings.json").read_text())
fixed = [e for e in k if e["id"].startswith("R-") and e["kind"] == "fixed"]
opened = [e for e in k if e["id"].startswith("R-") and e["kind"] == "finding"]
t_fixed = ["| id | property | commit | what failed |", "|----|----------|--------|-------------|"] + \
    [f"| {e['id']} | {e['property']} | {e.get('commit', '')} | {e['what_failed']} |" for e in fixed]
hdr_open = "| id | property | what fails (demonstration: `review/<property>/bug_N.py`) |"
t_open = [hdr_open, "|----|----------|------------|"] + [f"| {e['id']} | {e['property']} | {e['what_fails']} |" for e in opened]
seeded = subprocess.run([sys.executable, str(HERE / "tools" / "seeded_table.py")], capture_output=True, text=True).stdout.rstrip("\n").split("\n")

lines = (HERE / "DESIGN.md").read_text().split("\n")


def replace_table(lines, start_idx, new):
    end = start_idx
    while end < len(lines) and lines[end].strip() != "":
        end += 1
    return lines[:start_idx] + new + lines[end:]


# review: fixed table = the table that follows the marker line of the review subsection
i = next(n for n, l in enumerate(lines) if l.startswith("### Review round"))
j = next(n for n in range(i, len(lines)) if lines[n].startswith("| id | property | commit | what failed |"))
lines = replace_table(lines, j, t_fixed)
j = next(n for n, l in enumerate(lines) if l.startswith("| id | property | what fails (demonstration"))
lines = replace_table(lines, j, t_open)
# seeded table
if "SEEDED_TABLE" in lines:
    j = lines.index("SEEDED_TABLE")
    lines = lines[:j] + seeded + lines[j + 1:]
else:
    j = next(n for n, l in enumerate(lines) if l.startswith("| change | property given to the agent |"))
    end = j
    while end < len(lines) and " rounds: round 1" not in lines[end]:
        end += 1
    if end >= len(lines):
        raise SystemExit("marker after the seeded table not found: DESIGN.md left untouched")
    lines = lines[:j] + seeded + [""] + lines[end:]
(HERE / "DESIGN.md").write_text("\n".join(lines))
print(len(fixed), "fixed,", len(opened), "open review findings;", len(seeded), "lines in the seeded table")
