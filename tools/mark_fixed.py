#!/usr/bin/env python3
"""turn a registered review finding into a fixed one: mark_fixed.py <id> <commit>"""
import json, pathlib, sys
rid, commit = sys.argv[1:3]
p = pathlib.Path("/verif/known_findings.json")
k = json.loads(p.read_text())
for e in k:
    if e["id"] == rid:
        e["kind"] = "fixed"
        e["commit"] = commit
        e["what_failed"] = e.pop("what_fails", e.get("what_failed", ""))
        print("fixed:", rid, commit)
        break
else:
    sys.exit("no such id")
p.write_text(json.dumps(k, indent=1, ensure_ascii=False))
